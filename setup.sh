#!/bin/sh
# Offline setup: nothing to build. Verifies the interpreter the checks use.
set -e
/venv/bin/python - <<'PY'
import sys, asyncio
assert sys.version_info[:2] >= (3, 10), sys.version
print('python', sys.version.split()[0], 'ok')
PY
test -d /repo/falcon
echo setup ok
