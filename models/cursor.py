"""Flat cursor reference model for the buffered readers (DESIGN section 4, C14).

The model is a position in one immutable byte string. It knows nothing about
chunks, buffers or sources. Every operation returns an `Expect` describing what
a reader that "behaves like one flat byte buffer" has to return, where the
cursor is afterwards, and a few model-side facts the harness uses to keep its
oracles no stronger than the property statement (rule R3):

* `end_probed`: the operation cannot be answered without knowing that the
  stream has ended (a reader may report eof only once it had to look);
* `scan_to_end`: a delimited scan that does not meet the delimiter before the
  end of the data (the trigger of known defect #11; signature feature only).

Semantics are those of the existing unit tests
(/repo/tests/test_buffered_reader.py, /repo/tests/asgi/test_buffered_reader.py):

read(n)            n in (None, -1): everything; n >= 0: data[pos:pos+n]
peek(n)            n < 0 or n > chunk_size -> chunk_size; never moves
read_until(d,n,c)  up to the first occurrence of d at or after pos, the size cap
                   or the end, whichever comes first; with c the delimiter must
                   follow immediately (DelimiterError otherwise) and is skipped
pipe / exhaust     everything
pipe_until(d, c)   read_until without a cap
readline(n)        up to and including the first b'\\n', capped at n
readlines(h)       lines until the end, or until their total length >= h (h > 0)
"""

OK = 'ok'
EXC = 'exc'


class Expect(object):
    __slots__ = ('kind', 'value', 'exc', 'pos', 'end_probed', 'scan_to_end', 'partial')

    def __init__(self, kind, value=None, exc=None, pos=0, end_probed=False,
                 scan_to_end=False, partial=None):
        self.kind = kind
        self.value = value          # bytes / list of bytes / None
        self.exc = exc              # exception class name when kind == EXC
        self.pos = pos              # cursor afterwards (unspecified after DelimiterError)
        self.end_probed = end_probed
        self.scan_to_end = scan_to_end
        self.partial = partial      # bytes legitimately emitted before a DelimiterError


def unbounded(n):
    return n is None or n == -1


class Cursor(object):
    __slots__ = ('data', 'pos', 'cs', 'n')

    def __init__(self, data, chunk_size):
        self.data = data
        self.n = len(data)
        self.pos = 0
        self.cs = chunk_size

    # -- helpers ---------------------------------------------------------------
    @property
    def remaining(self):
        return self.n - self.pos

    def legal(self, delimiter):
        return 1 <= len(delimiter) <= self.cs

    def find(self, delimiter):
        """Distance from the cursor to the next occurrence, or -1."""
        i = self.data.find(delimiter, self.pos)
        return i - self.pos if i >= 0 else -1

    # -- operations (none of them mutates; the harness commits `pos`) -----------
    def read(self, n):
        p = self.pos
        if unbounded(n):
            return Expect(OK, self.data[p:], pos=self.n, end_probed=True)
        return Expect(OK, self.data[p:p + n], pos=min(self.n, p + n),
                      end_probed=p + n > self.n)

    def peek(self, n):
        if n < 0 or n > self.cs:
            n = self.cs
        p = self.pos
        return Expect(OK, self.data[p:p + n], pos=p, end_probed=p + n > self.n)

    def read_until(self, delimiter, n, consume):
        if not self.legal(delimiter):
            return Expect(EXC, exc='ValueError', pos=self.pos)
        p = self.pos
        lim = self.n if unbounded(n) else min(self.n, p + n)
        i = self.data.find(delimiter, p)
        end = i if 0 <= i < lim else lim
        value = self.data[p:end]
        # the reader had to see the end iff it ran out of data before meeting
        # the delimiter or the cap
        probed = end == self.n and i != end and (unbounded(n) or p + n > self.n)
        scan = i < 0
        if consume:
            dl = len(delimiter)
            if self.data[end:end + dl] != delimiter:
                return Expect(EXC, exc='DelimiterError', pos=end, end_probed=probed,
                              scan_to_end=scan, partial=value)
            return Expect(OK, value, pos=end + dl, end_probed=probed, scan_to_end=scan)
        return Expect(OK, value, pos=end, end_probed=probed, scan_to_end=scan)

    def pipe(self):
        return Expect(OK, self.data[self.pos:], pos=self.n, end_probed=True)

    def pipe_until(self, delimiter, consume):
        return self.read_until(delimiter, -1, consume)

    def readline(self, n):
        p = self.pos
        lim = self.n if unbounded(n) else min(self.n, p + n)
        i = self.data.find(b'\n', p)
        end = i + 1 if 0 <= i < lim else lim
        return Expect(OK, self.data[p:end], pos=end)

    def readlines(self, hint):
        p = self.pos
        out = []
        total = 0
        while p < self.n:
            i = self.data.find(b'\n', p)
            end = i + 1 if i >= 0 else self.n
            out.append(self.data[p:end])
            total += end - p
            p = end
            if hint >= 0 and total >= hint:
                break
        return Expect(OK, out, pos=p)

    def part(self, delimiter):
        """(bytes of the delimited sub-stream, delimiter found?)"""
        i = self.data.find(delimiter, self.pos)
        if i < 0:
            return self.data[self.pos:], False
        return self.data[self.pos:i], True
