"""Reference walk for C01, written from the property statement only.

It works on the list of *accepted template strings* (never on Falcon's tree,
never with Falcon's field regex or converter classes):

    a plain depth-first walk of the template tree; literal segments before
    multi-field segments before single-field segments; backtracking on
    failure; converters may veto a match; a trailing path converter swallows
    the rest; params only from the matched branch.

Rule R3 (the oracle asks no more than the statement). Where the statement is
silent the walk is *non-deterministic* and `lookup` returns the SET of results
the statement allows; the harness accepts any member:

  * order among several multi-field siblings of one level: every order;
  * how a multi-field segment splits a string that can be split in several
    ways ('1-2-3' against '{a}-{b}'): every split; a split whose converter
    vetoes makes "this sibling does not match" an allowed reading too;
  * a field (alone or inside a multi-field segment) against an EMPTY string:
    both "matches with ''" and "does not match";
  * the same template added twice: either registration may be reported.

Converters are modelled only on strings whose meaning is beyond dispute (see
`_conv`); anything else raises `Unspecified` and the harness abstains.
"""
import re
import uuid
from itertools import permutations

_FIELD = re.compile(r'\{([^{}]*)\}')
_FSPEC = re.compile(r'([^:(]*)(?::([^(]*)(?:\((.*)\))?)?$')
_INT = re.compile(r'-?[0-9]+$')
_FLOAT = re.compile(r'-?[0-9]+(\.[0-9]+)?$')
_UUID = re.compile(r'[0-9a-fA-F]{8}-?[0-9a-fA-F]{4}-?[0-9a-fA-F]{4}-?[0-9a-fA-F]{4}-?[0-9a-fA-F]{12}$')
_NOT_NUM = re.compile(r'[^0-9+\-_\s]')       # a character no number spelling contains
_SIGN_INSIDE = re.compile(r'[0-9_][+\-]')      # a sign after a digit ('1-2'); 'e' handled by caller
VETO = object()
LIT, MULTI, SINGLE = 0, 1, 2


class Unspecified(Exception):
    """The statement (and the converter documentation) do not settle this case."""


def _args(*a, **k):
    return a, k


def _conv(cname, argstr):
    """Return f(str) -> value | VETO for a converter name + argument string."""
    a, k = eval('_args(%s)' % (argstr or ''), {'_args': _args})
    if cname == 'int':
        nd, lo, hi = (list(a) + [None] * 3)[:3]
        nd, lo, hi = k.get('num_digits', nd), k.get('min', lo), k.get('max', hi)

        def f(s):
            if not _INT.match(s):
                if s == '' or _NOT_NUM.search(s) or _SIGN_INSIDE.search(s):
                    return VETO
                raise Unspecified('int(%r)' % s)
            v = int(s)
            if (nd is not None and len(s) != nd) or (lo is not None and v < lo) or \
                    (hi is not None and v > hi):
                return VETO
            return v
    elif cname == 'float':
        flo, fhi = (list(a) + [None] * 2)[:2]
        flo, fhi = k.get('min', flo), k.get('max', fhi)

        def f(s):
            if _FLOAT.match(s):
                v = float(s)
                if (flo is not None and v < flo) or (fhi is not None and v > fhi):
                    return VETO
                return v
            if s == '' or _SIGN_INSIDE.search(s) or (
                    _NOT_NUM.search(s.replace('.', '').replace('e', '').replace('E', ''))
                    and s.lower().strip('+-') not in ('nan', 'inf', 'infinity')):
                return VETO
            raise Unspecified('float(%r)' % s)
    elif cname == 'hex':
        # a converter of the harness (registered as 'hex'; its class is called IntConverter, like the
        # built-in one): hexadecimal digits, optionally exactly `num_digits` of them
        hnd = k.get('num_digits', a[0] if a else None)

        def f(s):
            if not re.match(r'[0-9a-f]+$', s) or (hnd is not None and len(s) != hnd):
                return VETO
            return int(s, 16)
    elif cname == 'uuid':
        def f(s):
            if _UUID.match(s):
                return uuid.UUID(hex=s.replace('-', ''))
            if len(s) < 16:
                return VETO
            raise Unspecified('uuid(%r)' % s)
    else:
        raise Unspecified('converter %r' % cname)
    return f


class Node(object):
    __slots__ = ('raw', 'kind', 'lits', 'fields', 'cnames', 'is_path', 'path_veto', 'kids', 'routes')

    def __init__(self, raw):
        self.raw = raw
        self.kids = []          # insertion order
        self.routes = []        # [(template, resource)] registered exactly here
        pieces = _FIELD.split(raw)
        self.lits = pieces[0::2]
        self.fields = []        # [(name, convert | None)]
        self.cnames = []        # converter name per field (None = plain)
        self.is_path = False
        self.path_veto = False   # 'safepath': a path-like converter of the harness that vetoes 'zz'
        for spec in pieces[1::2]:
            name, cname, argstr = _FSPEC.match(spec).groups()
            if cname in ('path', 'safepath'):
                self.is_path = True
                self.path_veto = cname == 'safepath'
            self.cnames.append(cname)
            self.fields.append((name, _conv(cname, argstr) if cname and cname not in ('path', 'safepath') else None))
        if not self.fields:
            self.kind = LIT
        elif len(self.fields) == 1 and self.lits == ['', '']:
            self.kind = SINGLE
        else:
            self.kind = MULTI

    def _splits(self, s, k, pos):
        """All ways fields k.. and literals k.. can cover s[pos:]."""
        lit = self.lits[k]
        if not s.startswith(lit, pos):
            return
        pos += len(lit)
        if k == len(self.fields):
            if pos == len(s):
                yield ()
            return
        for end in range(pos, len(s) + 1):
            for rest in self._splits(s, k + 1, end):
                yield (s[pos:end],) + rest

    def options(self, segs, i):
        """-> ([(params, next_index)], may_also_be_skipped)"""
        s = segs[i]
        if self.kind == LIT:
            return ([({}, i + 1)] if s == self.raw else []), False
        if self.is_path and self.kind == SINGLE:
            rest = '/'.join(segs[i:])
            if self.path_veto and 'zz' in rest:
                return [], True          # the converter vetoed: the next sibling is tried
            return [({self.fields[0][0]: rest}, len(segs))], False
        opts, skip = [], False
        for vals in (self._splits(s, 0, 0) if self.kind == MULTI else [(s,)]):
            params = {}
            for (name, conv), v in zip(self.fields, vals):
                if v == '':
                    skip = True          # empty field value: statement silent
                if conv is not None:
                    v = conv(v)
                    if v is VETO:
                        skip = True      # this split vetoed: sibling may be "no match"
                        break
                params[name] = v
            else:
                opts.append((params, i + 1))
        return opts, skip


class Tree(object):
    def __init__(self):
        self.roots = []

    @staticmethod
    def split(template):
        return template.lstrip('/').split('/')

    def prefix_len(self, template):
        """Number of leading segments of `template` that already are nodes."""
        nodes, n = self.roots, 0
        for raw in self.split(template):
            for node in nodes:
                if node.raw == raw:
                    break
            else:
                return n
            n += 1
            nodes = node.kids
        return n

    def add(self, template, resource):
        nodes = self.roots
        for raw in self.split(template):
            for node in nodes:
                if node.raw == raw:
                    break
            else:
                node = Node(raw)
                nodes.append(node)
            nodes = node.kids
        node.routes.append((template, resource))

    def lookup(self, path):
        """Set of allowed results: None or (node, frozen params)."""
        return _level(self.roots, path[1:].split('/') if path.startswith('/') else path.split('/'),
                      0, {})


def freeze(params):
    return tuple(sorted((k, type(v).__name__, v) for k, v in params.items()))


def _level(nodes, segs, i, params):
    lits = [n for n in nodes if n.kind == LIT]
    multi = [n for n in nodes if n.kind == MULTI]
    single = [n for n in nodes if n.kind == SINGLE]
    out = set()
    for perm in permutations(multi):
        out |= _siblings(lits + list(perm) + single, 0, segs, i, params)
    return out


def _siblings(order, k, segs, i, params):
    if k == len(order):
        return {None}
    node = order[k]
    opts, skip = node.options(segs, i)
    out = set()
    for add, j in opts:
        p = dict(params)
        p.update(add)
        if j == len(segs):
            sub = {(node, freeze(p))} if node.routes else {None}
        else:
            sub = _level(node.kids, segs, j, p) if node.kids else {None}
        if None in sub:
            skip = True                 # branch failed below: backtrack
            sub.discard(None)
        out |= sub
    if skip or not opts:
        out |= _siblings(order, k + 1, segs, i, params)
    return out
