"""Reference multipart/form-data codec (DESIGN section 4, C13).

Written from RFC 7578 (multipart/form-data), RFC 2046 section 5.1.1 (the
multipart grammar), RFC 2183 / RFC 6266 (Content-Disposition parameters) and
RFC 5987 (ext-value: charset'lang'pct-encoded). Nothing here imports Falcon.

    multipart-body := [preamble CRLF]
                      dash-boundary CRLF body-part
                      *( CRLF dash-boundary CRLF body-part )
                      CRLF dash-boundary "--" [CRLF epilogue]
    dash-boundary  := "--" boundary
    body-part      := 1*(header CRLF) CRLF content      (RFC 7578: every part
                      carries at least Content-Disposition, so the blank line
                      is always there)

Two halves:

* the *encoder* (`FormPart`, `encode_form`, `content_type_value`) is the
  reference producer of valid forms; what it encoded is the expected result
  for valid bodies;
* the *flat parser* (`flat_parse`) splits an arbitrary byte string on the
  delimiter and says, part by part, what a multipart reader has to find --
  and where the RFCs leave room for more than one reading (`ambig`), so that
  an oracle built on it never demands more than "no silently wrong parts".
"""
import codecs
import re
import unicodedata

CRLF = b'\r\n'

# RFC 2046: bchars := bcharsnospace / " "
BCHARS_NOSPACE = b"0123456789ABCDEFGHIJKLMNOPQRSTUVWXYZabcdefghijklmnopqrstuvwxyz'()+_,-./:=?"
# RFC 2045 token characters (what may go unquoted into a parameter value)
_TOKEN = frozenset(b"!#$%&'*+-.0123456789ABCDEFGHIJKLMNOPQRSTUVWXYZ^_`abcdefghijklmnopqrstuvwxyz|~")
# RFC 5987 attr-char
_ATTR_CHAR = frozenset(b"!#$&+-.0123456789ABCDEFGHIJKLMNOPQRSTUVWXYZ^_`abcdefghijklmnopqrstuvwxyz|~")
_SECURE_OK = frozenset('abcdefghijklmnopqrstuvwxyzABCDEFGHIJKLMNOPQRSTUVWXYZ0123456789.-_')

_LANG_TAG = re.compile(r'^[A-Za-z]{1,8}(-[A-Za-z0-9]{1,8})*$')     # RFC 5646, loosely
FILLER = 0x23      # '#': not a bchar, not CR/LF/'-' -> can never be part of a delimiter


def is_token(b):
    return len(b) > 0 and all(c in _TOKEN for c in b)


# ---------------------------------------------------------------------------
# encoder
# ---------------------------------------------------------------------------
class FormPart(object):
    """One part as the application meant it (the expected parse result)."""
    __slots__ = ('name', 'filename', 'fn_mode', 'ctype', 'content', 'opts',
                 'headers_block', 'content_off', 'ambig', 'hdr_ambig', 'partial')

    def __init__(self, name, filename=None, fn_mode='none', ctype=None, content=b'', opts=None):
        self.name = name              # str
        self.filename = filename      # str or None (None: no filename parameter)
        self.fn_mode = fn_mode        # none | plain | ext | both
        self.ctype = ctype            # header value (str) or None: header absent
        self.content = content
        self.opts = opts or {}        # encoding variations (see encode_headers)
        self.headers_block = None     # bytes between delimiter line and the blank line
        self.content_off = None       # offset of the content in the encoded body
        self.ambig = False            # (flat parser) structure open to >1 reading from here on
        self.hdr_ambig = False        # (flat parser) header values open to >1 reading
        self.partial = False          # (flat parser) content ended by end of data

    @property
    def content_type(self):
        # RFC 7578 section 4.4: defaults to text/plain
        return self.ctype if self.ctype is not None else 'text/plain'

    def as_plan(self):
        return {'name': self.name, 'filename': self.filename, 'fn_mode': self.fn_mode,
                'ctype': self.ctype, 'content': self.content.decode('latin-1'),
                'opts': dict(sorted(self.opts.items()))}


def quote_param(value, force_quote=True):
    """token or quoted-string (RFC 2045). The workload never puts '"', '\\',
    CR or LF into plain values, so no quoted-pair is needed."""
    raw = value.encode('utf-8')
    assert b'"' not in raw and b'\\' not in raw and b'\r' not in raw and b'\n' not in raw
    if not force_quote and is_token(raw):
        return raw
    return b'"' + raw + b'"'


def ext_value(value, charset='UTF-8', lang=''):
    """RFC 5987 ext-value."""
    raw = value.encode('utf-8' if charset.lower() == 'utf-8' else 'iso-8859-1')
    out = bytearray()
    for c in raw:
        if c in _ATTR_CHAR:
            out.append(c)
        else:
            out += b'%%%02X' % c
    return charset.encode('ascii') + b"'" + lang.encode('ascii') + b"'" + bytes(out)


_CASES = {
    'canon': lambda s: s,
    'lower': lambda s: s.lower(),
    'upper': lambda s: s.upper(),
}


def encode_headers(part):
    """-> header block (lines joined by CRLF, no trailing CRLF)."""
    o = part.opts
    case = _CASES[o.get('case', 'canon')]
    cd = b'form-data; name=' + quote_param(part.name, not o.get('bare_name'))
    if part.fn_mode in ('plain', 'both'):
        plain = b'; filename=' + quote_param(o['fallback'] if part.fn_mode == 'both' else part.filename,
                                             not o.get('bare_filename'))
    if part.fn_mode in ('ext', 'both'):
        ext = b'; filename*=' + ext_value(part.filename, o.get('ext_charset', 'UTF-8'), o.get('ext_lang', ''))
    if part.fn_mode == 'plain':
        cd += plain
    elif part.fn_mode == 'ext':
        cd += ext
    elif part.fn_mode == 'both':
        cd += (ext + plain) if o.get('ext_first') else (plain + ext)
    lines = [case(b'Content-Disposition') + b': ' + cd]
    if part.ctype is not None:
        ct = case(b'Content-Type') + b': ' + part.ctype.encode('ascii')
        if o.get('ct_first'):
            lines.insert(0, ct)
        else:
            lines.append(ct)
    if o.get('cte'):
        lines.append(case(b'Content-Transfer-Encoding') + b': binary')
    if o.get('extra'):
        # RFC 7578 section 4.8: other header fields must be ignored
        lines.insert(o['extra'] % (len(lines) + 1), b'X-Sim-Extra: ' + b'x' * (o['extra'] % 7))
    return CRLF.join(lines)


def sanitize(data, needle, lead=b''):
    """Make sure `needle` does not occur in lead+data by overwriting the last
    byte of each occurrence with a byte that can never be part of a delimiter.
    (An encoder must pick a boundary that does not occur in the data; here the
    boundary is given, so the data yields.)"""
    data = bytearray(data)
    nl = len(needle)
    ll = len(lead)
    while True:
        i = (lead + bytes(data)).find(needle)
        if i < 0:
            return bytes(data)
        data[i + nl - 1 - ll] = FILLER


class Layout(object):
    """Where things are in an encoded body (used to aim corruptions)."""
    __slots__ = ('regions', 'first_delim', 'close_off', 'end_of_form')

    def __init__(self):
        self.regions = []      # (start, end, kind)
        self.first_delim = 0
        self.close_off = 0
        self.end_of_form = 0


def encode_form(parts, boundary, preamble=None, lead_crlf=False, epilogue=None, final_crlf=True):
    """-> (body bytes, Layout). Fills part.headers_block / part.content_off.

    preamble: None (absent) or bytes (followed by CRLF); lead_crlf: an empty
    preamble (the body starts with CRLF); epilogue: None or bytes (preceded by
    CRLF); final_crlf: CRLF after the close delimiter when there is no epilogue.
    """
    dash = b'--' + boundary
    delim = CRLF + dash
    out = bytearray()
    lay = Layout()
    if preamble is not None:
        assert dash not in preamble
        out += preamble
        lay.regions.append((0, len(out), 'preamble'))
        out += CRLF
    elif lead_crlf:
        out += CRLF
    lay.first_delim = len(out)
    first = True
    for p in parts:
        a = len(out)
        if first:
            out += dash
            first = False
        else:
            out += delim
        out += CRLF
        lay.regions.append((a, len(out), 'delim'))
        hb = encode_headers(p)
        p.headers_block = hb
        a = len(out)
        out += hb
        out += CRLF + CRLF
        lay.regions.append((a, len(out), 'headers'))
        assert delim not in (CRLF + p.content), 'content contains the delimiter'
        p.content_off = len(out)
        out += p.content
        lay.regions.append((p.content_off, len(out), 'content'))
    a = len(out)
    lay.close_off = a
    out += (dash if first else delim) + b'--'
    lay.regions.append((a, len(out), 'close'))
    lay.end_of_form = len(out)
    if epilogue is not None:
        out += CRLF
        a = len(out)
        out += epilogue
        lay.regions.append((a, len(out), 'epilogue'))
    elif final_crlf:
        out += CRLF
    return bytes(out), lay


def content_type_value(boundary, quoted=False, extra=0):
    """Request Content-Type header value. The boundary is quoted when it is not
    a token (RFC 2045), or on request."""
    b = boundary.decode('ascii')
    if quoted or not is_token(boundary):
        b = '"' + b + '"'
    if extra == 1:
        return 'multipart/form-data; charset=UTF-8; boundary=' + b
    if extra == 2:
        return 'multipart/form-data;boundary=' + b
    return 'multipart/form-data; boundary=' + b


# ---------------------------------------------------------------------------
# reference accessors
# ---------------------------------------------------------------------------
def secure_filename(filename):
    """Documented behaviour of BodyPart.secure_filename: NFKD-normalise, keep
    ASCII alphanumerics, '.', '-', '_', replace everything else (and a leading
    dot) with '_'. None -> error (empty or missing filename)."""
    if not filename:
        return None
    s = unicodedata.normalize('NFKD', filename)
    if s.startswith('.'):
        s = '_' + s[1:]
    return ''.join(c if c in _SECURE_OK else '_' for c in s)


def split_media_type(value):
    """Strict media-type parse: type/subtype *( OWS ";" OWS token=token|"qs" ).
    -> (main 'type/subtype' as written, {param: value}) or None when the value
    is not of that shape."""
    segs = value.split(';')
    main = segs[0].strip(' \t')
    if main.count('/') != 1 or not all(is_token(x.encode('utf-8', 'replace')) for x in main.split('/')):
        return None
    params = {}
    for s in segs[1:]:
        s = s.strip(' \t')
        if '=' not in s:
            return None
        k, v = s.split('=', 1)
        if not is_token(k.encode('utf-8', 'replace')):
            return None
        if len(v) >= 2 and v[0] == '"' and v[-1] == '"' and '"' not in v[1:-1] and '\\' not in v:
            v = v[1:-1]
        elif not is_token(v.encode('utf-8', 'replace')):
            return None
        k = k.lower()
        if k in params:
            return None
        params[k] = v
    return main, params


def text_of(ctype, content, default_charset='utf-8'):
    """Reference for BodyPart.get_text(): ('none', None) for a part that is not
    text/plain, ('ok', str), ('error', None) when the bytes cannot be decoded
    with the declared charset (documented: parse error), or ('unsure', None)
    when the content type is not cleanly parseable."""
    if ctype is None:
        main, params = 'text/plain', {}
    else:
        mt = split_media_type(ctype)
        if mt is None:
            return ('unsure', None)
        main, params = mt
    if main != 'text/plain':
        if main.lower() == 'text/plain':
            return ('unsure', None)      # case-insensitive match is the RFC reading
        return ('none', None)
    charset = params.get('charset', default_charset)
    try:
        codecs.lookup(charset)
    except (LookupError, ValueError):
        # CPython decodes b'' without looking the codec up
        return ('error', None) if content else ('unsure', None)
    try:
        return ('ok', content.decode(charset))
    except (ValueError, LookupError):
        return ('error', None)


# ---------------------------------------------------------------------------
# flat reference parser
# ---------------------------------------------------------------------------
class FlatResult(object):
    __slots__ = ('parts', 'status', 'reason', 'ambig_tail', 'end')

    def __init__(self):
        self.parts = []          # FormPart (name/filename/ctype/content + flags)
        self.status = None       # 'closed' | 'reject' | 'truncated'
        self.reason = ''
        self.ambig_tail = False  # structure after the last listed part is open to >1 reading
        self.end = 0             # offset just behind the close delimiter (status closed)

    def summary(self):
        return {'status': self.status, 'reason': self.reason, 'ambig_tail': self.ambig_tail,
                'parts': [{'name': p.name, 'filename': p.filename, 'ctype': p.ctype,
                           'content': p.content.decode('latin-1'), 'ambig': p.ambig,
                           'hdr_ambig': p.hdr_ambig, 'partial': p.partial} for p in self.parts]}


def _unquote_pct(raw):
    out = bytearray()
    i = 0
    n = len(raw)
    while i < n:
        c = raw[i]
        if c == 0x25:
            h = raw[i + 1:i + 3]
            if len(h) != 2 or not all(c in b'0123456789abcdefABCDEF' for c in h):
                return None
            out.append(int(h.decode('ascii'), 16))
            i += 3
        elif c in _ATTR_CHAR:
            out.append(c)
            i += 1
        else:
            return None
    return bytes(out)


def parse_disposition(value):
    """Strict RFC 6266 / RFC 2183 reading of a Content-Disposition value.
    -> (name, filename, ext language tag) or None if the value leaves that
    grammar (then any lenient reader's result is as good as another's)."""
    try:
        s = value.decode('utf-8')
    except UnicodeDecodeError:
        return None
    if '\\' in s or '\r' in s or '\n' in s or '\x00' in s:
        return None
    # split on ';' outside quotes
    segs = []
    cur = []
    inq = False
    for ch in s:
        if ch == '"':
            inq = not inq
            cur.append(ch)
        elif ch == ';' and not inq:
            segs.append(''.join(cur))
            cur = []
        else:
            cur.append(ch)
    if inq:
        return None
    segs.append(''.join(cur))
    if not is_token(segs[0].strip(' \t').encode('utf-8')):
        return None
    params = {}
    ext_lang = ''
    for seg in segs[1:]:
        seg = seg.strip(' \t')
        if '=' not in seg:
            return None
        k, v = seg.split('=', 1)
        if k != k.strip() or v != v.strip() or not k:
            return None
        kb = k.encode('utf-8')
        if kb.endswith(b'*'):
            if k.lower() != 'filename*':
                return None      # RFC 7578 has no other extended parameter
            # ext-value
            bits = v.split("'")
            if len(bits) != 3:
                return None
            cs, lang, pct = bits
            if cs.lower() not in ('utf-8', 'iso-8859-1'):
                return None
            if lang and not _LANG_TAG.match(lang):
                return None
            if not pct:
                return None
            raw = _unquote_pct(pct.encode('utf-8'))
            if raw is None:
                return None
            try:
                val = raw.decode(cs)
            except ValueError:
                return None
            ext_lang = lang
        else:
            if not is_token(kb):
                return None
            if len(v) >= 2 and v[0] == '"' and v[-1] == '"':
                val = v[1:-1]
                if '"' in val or val != val.strip():
                    return None
            else:
                if '"' in v or not is_token(v.encode('utf-8')):
                    return None
                val = v
        k = k.lower()
        if k in params:
            return None
        params[k] = val
    fn = params.get('filename*', params.get('filename'))
    return params.get('name'), fn, ext_lang


_KNOWN = (b'content-disposition', b'content-type', b'content-transfer-encoding')


def _parse_part_headers(block, part):
    """Fill name/filename/ctype of `part` from a header block; set hdr_ambig
    when the block leaves the strict grammar."""
    seen = {}
    amb = False
    for line in block.split(CRLF):
        if not line:
            amb = True
            continue
        if line[:1] in b' \t' or b'\r' in line or b'\n' in line:
            amb = True          # folding / bare CR or LF
            continue
        name, sep, value = line.partition(b':')
        if not sep or not is_token(name):
            amb = True
            continue
        lname = name.lower()
        if lname not in _KNOWN:
            continue
        if not value.startswith(b' ') or value != b' ' + value.strip(b' \t') or value == b' ':
            amb = True          # RFC: OWS is optional and stripped; readers differ
        if lname in seen:
            amb = True
        seen[lname] = value.strip(b' \t')
    if b'content-transfer-encoding' in seen and seen[b'content-transfer-encoding'] != b'binary':
        amb = True
    cd = seen.get(b'content-disposition')
    if cd is None:
        part.name = None
        part.filename = None
    else:
        r = parse_disposition(cd)
        if r is None:
            amb = True
        else:
            part.name, part.filename = r[0], r[1]
            if r[2]:
                part.opts['ext_lang'] = r[2]
    ct = seen.get(b'content-type')
    if ct is None:
        part.ctype = None
    else:
        try:
            part.ctype = ct.decode('ascii')
        except UnicodeDecodeError:
            amb = True
            part.ctype = None
    part.hdr_ambig = amb


def flat_parse(body, boundary):
    """Split `body` on the delimiter over the whole byte string.

    Reading taken where RFC 2046 is silent or readers are known to differ is
    the *sequential* one (first dash-boundary anywhere ends the preamble; every
    later CRLF--boundary is a delimiter; a delimiter must be followed at once
    by "--" or CRLF; the header block ends at the first blank line). Wherever
    another legitimate reading would give different parts, the part (and all
    later ones) is flagged `ambig` so that no oracle leans on it.
    """
    res = FlatResult()
    dash = b'--' + boundary
    delim = CRLF + dash
    n = len(body)
    i = body.find(dash)
    if i < 0:
        res.status = 'reject'
        res.reason = 'no dash-boundary'
        return res
    amb = False
    if i > 0 and body[max(0, i - 2):i] != CRLF:
        amb = True       # RFC: delimiters start a line; lenient readers take it anywhere
    pos = i + len(dash)
    while True:
        nxt = body[pos:pos + 2]
        if nxt == b'--':
            res.status = 'closed'
            res.end = pos + 2
            res.ambig_tail = amb
            return res
        if nxt != CRLF:
            # transport padding (RFC 2046) is legal but not universally accepted
            j = pos
            while j < n and body[j:j + 1] in (b' ', b'\t'):
                j += 1
            if j > pos and body[j:j + 2] in (CRLF, b'--'):
                amb = True
            if len(nxt) < 2:
                res.status = 'truncated'
                res.reason = 'data ends inside a delimiter line'
            else:
                res.status = 'reject'
                res.reason = 'delimiter not followed by CRLF or "--" at %d' % pos
            res.ambig_tail = amb
            return res
        pos += 2
        hdr_end = body.find(CRLF + CRLF, pos)
        if body[pos:pos + 2] == CRLF:
            amb = True       # empty header block: RFC content starts here, readers differ
        if hdr_end < 0:
            res.status = 'truncated' if body.find(delim, pos) < 0 else 'reject'
            res.reason = 'header block not terminated'
            res.ambig_tail = amb
            return res
        # a delimiter before (or glued to) the end of the header block: a
        # split-first reader sees a body-less part, a sequential one does not
        d = body.find(delim, max(0, pos - 2))
        if 0 <= d <= hdr_end + 2:
            amb = True
        part = FormPart(None)
        part.headers_block = body[pos:hdr_end]
        _parse_part_headers(part.headers_block, part)
        cstart = hdr_end + 4
        part.content_off = cstart
        k = body.find(delim, cstart)
        part.ambig = amb
        if k < 0:
            part.content = body[cstart:]
            part.partial = True
            res.parts.append(part)
            res.status = 'truncated'
            res.reason = 'no delimiter after part %d' % (len(res.parts) - 1)
            res.ambig_tail = amb
            return res
        part.content = body[cstart:k]
        res.parts.append(part)
        pos = k + len(delim)
