"""C14 -- buffered readers behave like one flat byte buffer for every chunking
(DESIGN section 4, C14).

One run = one reader flavour (sync `falcon.util.reader.BufferedReader` or
async `falcon.asgi.reader.BufferedReader`), one byte string, one buffer size,
one environment behaviour (short reads / source chunking) and one history of
operations that is generated *while it executes* from the state of the flat
reference cursor (`models.cursor.Cursor`), so that sizes and delimiters sit
on the interesting edges (distance to the delimiter +-1, remaining +-1,
multiples of the chunk size, delimiters that occur ahead / nearly occur /
do not occur). Every decision is a `ctx.ch` draw.

Oracles (ids of DESIGN appendix B; <f> is `sync` or `async`):

reader.<f>.conservation  bytes handed out (returned, piped, peeked) are not the
                         bytes of the flat stream at the cursor: something was
                         returned twice, skipped or invented
reader.<f>.op.<op>       the bytes are the right ones but the operation stopped
                         at the wrong place, returned the wrong shape, raised
                         the wrong exception class, raised none, hung or looped
reader.sync.overread     the source was asked for bytes beyond max_stream_len
reader.async.tell        tell() != cursor position
reader.async.eof         eof is true with data remaining, or false at the end
                         although the reader already had to see the end
reader.nested.resync     after a nested reader was used/abandoned, the parent's
                         pipe_until(delimiter, consume_delimiter=True) raised
                         the wrong thing or piped bytes that are not the unread
                         tail of the nested part

A history stops at the first disagreement (afterwards model and reader are out
of step and further verdicts would be noise). After an *expected* DelimiterError
(read_until / pipe_until with consume_delimiter=True whose extent is not
followed by the delimiter) the history goes on with the cursor right behind the
extent: that is where the flat cursor stands, and a reader that swallowed more
than that would skip data. Every history
that is still running at its end is closed by a final `read()` that must return
exactly the rest of the flat stream (signature op=final_drain); this is what
makes silent state corruption by the last operation visible.

Verdict signature: `op` = operation at which the disagreement was observed
(for tell/eof: the operation executed just before on that reader), `after` (async
only) = `eof_without_delimiter` iff some earlier or the current delimited scan
of this run (read_until, pipe_until, the parent resync) had no delimiter ahead
of it and can have run into the end of its source (observed for the top-level
reader: the source generator finished; assumed for nested readers), else
`none`. Verdicts whose `after` is `none` cannot stem from defects 11/12 of
DESIGN section 6, so every oracle is strict in those runs; `got` tells a hang
or livelock from a wrong result or exception.

Findings on the pinned tree (both disappear with one-line repairs, after which
1.3 million histories under 4 seeds are clean):

* async, DESIGN 6 #11 and #12 (one root cause): the last statement of
  `_iter_delimited` (`yield self._buffer`) hands out the buffer without marking
  it consumed. Every verdict it causes carries after=eof_without_delimiter.
* sync: `_read` sets `_buffer_pos = read_size` although the source delivered
  fewer bytes (stream shorter than max_stream_len, which is the normal case for
  a delimit() child): `_buffer_pos > _buffer_len`, `_normalize_size(None)` goes
  negative, a reader made by `delimit()` from that state has a negative budget
  and its `_read_until` spins forever for delimiters of >= 2 bytes. Verdicts:
  reader.sync.op.{read_until,readline,readlines} with got=livelock.

Livelocks inside pure-Python reader code are detected deterministically by
counting backward jumps in reader code objects (PEP 669 local events), see
`_install_loop_guard`; without `sys.monitoring` (< 3.12) such a defect shows up
as a wedged worker, i.e. HARNESS-ERROR, never as a pass.
"""
import asyncio
import json
import sys
import traceback

import falcon.asgi.reader as async_mod
import falcon.util.reader as sync_mod
from falcon.asgi.reader import BufferedReader as AsyncBufferedReader
from falcon.util.reader import BufferedReader

from detsim.core import HarnessError
from detsim.simloop import Env, SimBudgetExceeded, SimLoop
from models.cursor import EXC, Cursor

PROPERTY = 'C14'
LEVEL = 'exploration'
RUNS = {'quick': 100000, 'thorough': 3000000}
BATCH = 2000
RULE = ('one run = one reader flavour (sync/async) x one byte string (0..64 bytes over a 2..4 '
        'letter alphabet that contains the delimiter bytes) x chunk_size (1..16, library default, '
        'patched module default) x max_stream_len below/at/above the data (sync) x one history of '
        '<=10 operations (nested delimit() histories of <=5 and <=3 operations, each followed by '
        'the parent resync) x one environment behaviour: per-call short reads of the sync source, '
        'per-chunk sizes (incl. empty and 1-byte chunks) and delivery points of the async source; '
        'non-trivial = >=1 operation completed and the environment delivered the data in >=2 '
        'pieces or >=1 short read fired; distinct = distinct (configuration+data+history, '
        'source call/chunk trace) pairs')
COMPONENTS = {
    'real': ['falcon.util.reader.BufferedReader', 'falcon.asgi.reader.BufferedReader',
             'asyncio.Task/Future (CPython)', 'async generator finalizers (CPython)'],
    'stub': ['event loop scheduler (detsim.SimLoop)', 'sync source read(n) with short reads, EOF '
             'and over-read probe', 'async chunk source with environment-resolved await points',
             'pipe destinations', 'history interpreter'],
}
EXPECTED_PROBES = ('short_read', 'source_eof_before_max', 'maxlen_below_data', 'empty_chunk',
                   'one_byte_chunk', 'delimiter_error', 'value_error', 'nested', 'nested_depth2',
                   'resync_ok', 'resync_missing_delimiter', 'scan_to_end', 'eof_strict',
                   'delimiter_multibyte_found', 'delimiter_near_miss_at_end', 'large_join_path',
                   'size_cap_before_delimiter', 'consume_ok', 'iter_partial', 'final_drain')
ASSUMPTIONS = (
    'flat semantics of every operation are those asserted by the existing unit tests '
    '(tests/test_buffered_reader.py, tests/asgi/test_buffered_reader.py)',
    'sizes are None, -1 or >= 0; readlines hints are -1 or >= 1 (hint 0 differs between io and '
    'Falcon and has no agreed flat meaning)',
    'after an expected DelimiterError the cursor stands right behind the extent that was read or piped '
    '(the histories go on from there); illegal delimiter lengths are only '
    'issued where both readers validate them (never read_until(size=0) / pipe_until at the end)',
    'eof may stay false at the end of the data until an operation had to look past the end; '
    'from then on it must be true exactly when the cursor is at the end',
    'nested readers follow the multipart protocol: used or abandoned, then the parent issues '
    'pipe_until(delimiter, consume_delimiter=True); the child look-ahead may hold bytes of its part',
    'async iteration is started at most once per reader and not resumed after other operations',
)

AFTER_NONE = 'none'
AFTER_SCAN = 'eof_without_delimiter'

SYNC_KINDS = ('read', 'peek', 'read_until', 'pipe_until', 'readline', 'readlines', 'delimit',
              'pipe', 'exhaust')
SYNC_W = (5, 3, 8, 3, 3, 1, 3, 1, 1)
ASYNC_KINDS = ('read', 'peek', 'read_until', 'pipe_until', 'tell', 'eof', 'delimit', 'iter',
               'readall', 'pipe', 'exhaust')
ASYNC_W = (5, 3, 8, 3, 3, 2, 3, 1, 1, 1, 1)
VALUE_OPS = ('read', 'peek', 'read_until', 'readline', 'readall')
ALPHABETS = (b'ab', b'a\n', b'ab\n', b'ab\nc')
SOURCE_CALL_CAP = 4000


LOOP_BUDGET = 50000      # backward jumps inside reader code per operation


class _Abort(BaseException):
    """A reader operation does not terminate (livelock). Raised by the sync
    source when it keeps being called and by the loop guard below.
    BaseException so that no `except Exception` can swallow it (rule R7)."""


# Deterministic livelock guard: a sync reader spinning in a `while True`
# never reaches the source or the simulated loop, so neither the call cap nor
# the step budget sees it. PEP 669 local JUMP events on the code objects of the
# two reader classes count loop iterations *inside reader code*; an operation
# that exceeds LOOP_BUDGET of them (normal operations need a few hundred at
# most on <= 64 bytes) is aborted. No clock is involved (rule R5).
_JUMPS = [0]


def _on_jump(code, offset, dest):
    if dest < offset:
        _JUMPS[0] += 1
        if _JUMPS[0] > LOOP_BUDGET:
            _JUMPS[0] = 0
            raise _Abort('more than %d loop iterations inside %s' % (LOOP_BUDGET, code.co_qualname))


def _install_loop_guard():
    mon = getattr(sys, 'monitoring', None)
    if mon is None:
        return False
    name = 'verif-c14-loop-guard'
    tool = None
    for tid in (4, 3, 5):
        cur = mon.get_tool(tid)
        if cur is None:
            mon.use_tool_id(tid, name)
            tool = tid
            break
        if cur == name:
            tool = tid
            break
    if tool is None:
        return False
    mon.register_callback(tool, mon.events.JUMP, _on_jump)
    for cls in (BufferedReader, AsyncBufferedReader):
        for v in vars(cls).values():
            v = getattr(v, 'fget', v)
            code = getattr(v, '__code__', None)
            if code is not None:
                mon.set_local_events(tool, code, mon.events.JUMP)
    return True


LOOP_GUARD = _install_loop_guard()


def _s(b):
    return b.decode('latin-1') if isinstance(b, bytes) else b


class _Sink(object):
    __slots__ = ('parts',)

    def __init__(self):
        self.parts = []

    def write(self, data):
        self.parts.append(data)


class SinkError(Exception):
    """The destination of a pipe failed after accepting a chunk (injected fault)."""


class _AsyncSink(object):
    __slots__ = ('parts', 'fail_at')

    def __init__(self, fail_at=None):
        self.parts = []
        self.fail_at = fail_at

    async def write(self, data):
        self.parts.append(data)
        if self.fail_at is not None and len(self.parts) >= self.fail_at:
            self.fail_at = None
            raise SinkError('destination failed')


class _State(object):
    """Per-reader bookkeeping of the interpreter (not of the model)."""
    __slots__ = ('iter_used', 'end_seen', 'last')

    def __init__(self):
        self.iter_used = False
        self.end_seen = False
        self.last = 'new'


# ---------------------------------------------------------------------------
# environment: sync source
# ---------------------------------------------------------------------------
class SyncSource(object):
    """wsgi.input-like read(n): exact, short (>= 1 byte) or EOF; never blocks.
    Holds the *whole* data, also the part beyond max_stream_len, which must
    never be requested (over-read probe)."""

    def __init__(self, h, data, max_len, short):
        self.h = h
        self.data = data
        self.max_len = max_len
        self.short = short
        self.off = 0
        self.calls = 0
        self.trace = []
        self.pieces = 0
        self.shorts = 0

    def read(self, n):
        h = self.h
        self.calls += 1
        if self.calls > SOURCE_CALL_CAP:
            raise _Abort('source called %d times' % self.calls)
        data = self.data
        if n is None or n < 0:
            h.violate('overread', 'source.read(%r): unbounded request with max_stream_len=%d' % (
                n, self.max_len), op=h.cur_op)
            n = len(data)
        elif self.off + n > self.max_len:
            h.violate('overread', 'source.read(%d) after %d bytes were delivered: reaches beyond '
                      'max_stream_len=%d' % (n, self.off, self.max_len), op=h.cur_op)
        avail = len(data) - self.off
        k = n if n < avail else avail
        if k <= 0:
            if n > 0:
                h.ctx.probe('source_eof_before_max')
            self.trace.append((n, 0))
            return b''
        if self.short and k > 1:
            r = h.ch.draw(4, 'short')
            if r == 2:
                k = 1
            elif r == 3:
                k = 1 + h.ch.draw(k - 1, 'short_len')
            if r >= 2:
                self.shorts += 1
                h.ctx.probe('short_read')
                h.ctx.ch.note_fired('source_short_read')
        out = data[self.off:self.off + k]
        self.off += k
        self.pieces += 1
        self.trace.append((n, k))
        return out


# ---------------------------------------------------------------------------
# environment: async source
# ---------------------------------------------------------------------------
class AsyncSource(Env):
    """Async generator of chunks of any size (empty and single bytes
    included). Before each chunk, and before the end, the generator awaits a
    future that only an environment action of the SimLoop resolves."""

    def __init__(self, h, data, mode, cs):
        self.h = h
        self.data = data
        self.mode = mode            # 0 whole, 1 single bytes, 2 mixed
        self.cs = cs
        self.off = 0
        self.waiter = None
        self.finished = False
        self.loop = None
        self.trace = []
        self.pieces = 0
        self.empties = 0
        self._acts = [('d', 2, self._deliver)]

    def actions(self):
        return self._acts if self.waiter is not None else ()

    def _deliver(self):
        w = self.waiter
        self.waiter = None
        w.set_result(None)

    def _next_len(self):
        rem = len(self.data) - self.off
        mode = self.mode
        if mode == 0:
            return rem
        if mode == 1:
            return 1 if rem else 0
        ch = self.h.ch
        r = ch.draw(8, 'chunk')
        if r == 0:
            return rem
        if r == 1:
            return 1 if rem else 0
        if r == 2:
            if self.empties < 4:
                self.empties += 1
                return 0
            return 1 if rem else 0
        if r <= 4:
            k = self.cs - 1 + ch.draw(3, 'chunk_cs')
        else:
            k = 1 + ch.draw(2 * self.cs + 2, 'chunk_len')
        if k < 0:
            k = 0
        return k if k < rem else rem

    async def gen(self):
        loop = self.loop
        data = self.data
        probe = self.h.ctx.probe
        while True:
            w = loop.create_future()
            self.waiter = w
            await w
            if self.off >= len(data):
                # the end, possibly preceded by trailing empty chunks
                if (self.mode == 2 and self.empties < 4
                        and self.h.ch.draw(4, 'trailing_empty') == 3):
                    self.empties += 1
                    k = 0
                else:
                    break
            else:
                k = self._next_len()
            chunk = data[self.off:self.off + k]
            self.off += k
            self.trace.append(k)
            if k == 0:
                probe('empty_chunk')
            else:
                self.pieces += 1
                if k == 1:
                    probe('one_byte_chunk')
            yield chunk
        self.finished = True


# ---------------------------------------------------------------------------
# the history interpreter
# ---------------------------------------------------------------------------
class Hist(object):
    def __init__(self, ctx):
        self.ctx = ctx
        self.ch = ctx.ch
        self.stop = False
        self.ended = 'complete'
        self.after = AFTER_NONE
        self.cur_op = 'init'
        self.oplog = []
        self.keep = []             # abandoned iterators stay referenced until the run ends
        self.ops_done = 0
        self.loop = None

    # -- configuration ---------------------------------------------------------
    def setup(self):
        ch = self.ch
        self.flavour = ('sync', 'async')[ch.weighted([2, 3], 'flavour')]
        self.prefix = 'reader.' + self.flavour
        self.alphabet = ch.choice(ALPHABETS, 'alphabet')
        # "one more byte?" draws: deleting a (more, byte) pair from the choice
        # list deletes one byte, zeroing a `more` truncates the data
        stop_den = (6, 16, 32, 64)[ch.draw(4, 'len_kind')]
        alpha = self.alphabet
        na = len(alpha)
        buf = bytearray()
        while len(buf) < 64 and ch.draw(stop_den, 'more_data'):
            buf.append(alpha[ch.draw(na, 'byte')])
        self.data = bytes(buf)
        mod = sync_mod if self.flavour == 'sync' else async_mod
        ck = ch.draw(12, 'cs_kind')
        if ck <= 9:
            self.cs_arg = 1 + ch.small(15, 'cs')
            self.cs = self.cs_arg
            self.cs_note = 'explicit'
        elif ck == 10:
            self.cs_arg = None
            self.cs = mod.DEFAULT_CHUNK_SIZE
            self.cs_note = 'library default'
        else:
            self.cs_arg = None
            self.cs = 1 + ch.draw(8, 'cs_default')
            mod.DEFAULT_CHUNK_SIZE = self.cs
            self.cs_note = 'patched module default'
        self.join_chunks = None
        if ch.draw(5, 'join_knob') == 4:
            self.join_chunks = 1 + ch.draw(2, 'join_chunks')
            mod._MAX_JOIN_CHUNKS = self.join_chunks
        n = len(self.data)
        if self.flavour == 'sync':
            mk = ch.draw(6, 'maxlen_kind')
            if mk <= 1:
                self.max_len = n
            elif mk == 2:
                self.max_len = n + 1 + ch.draw(4, 'maxlen')
            elif mk == 3:
                self.max_len = n + 1000
            elif mk == 4:
                self.max_len = ch.draw(n, 'maxlen') if n else 0
            else:
                self.max_len = n - 1 if n else 0
            if self.max_len < n:
                self.ctx.probe('maxlen_below_data')
            self.short = ch.draw(5, 'short_reads') >= 2
            self.flat = self.data[:self.max_len]
        else:
            self.max_len = None
            self.src_mode = (0, 2, 2, 1, 2)[ch.draw(5, 'src_mode')]
            self.flat = self.data

    def plan(self, src):
        p = {'flavour': self.flavour, 'data': _s(self.data), 'chunk_size': self.cs_arg,
             'chunk_size_effective': self.cs, 'chunk_size_kind': self.cs_note,
             'max_join_chunks': self.join_chunks, 'ops': self.oplog, 'ended': self.ended}
        if self.flavour == 'sync':
            p['max_stream_len'] = self.max_len
            p['short_reads'] = self.short
            p['source_calls'] = [list(t) for t in src.trace[:80]]
        else:
            p['source_mode'] = ('whole', 'single bytes', 'mixed')[self.src_mode]
            p['source_chunks'] = src.trace[:120]
        return p

    # -- verdicts ----------------------------------------------------------------
    def violate(self, sub, msg, op, oid=None, **sig):
        self.stop = True
        self.ended = 'violation'
        if self.flavour == 'async':
            sig['after'] = self.after
        self.ctx.violate(oid or (self.prefix + '.' + sub), msg, op=op, **sig)

    def note_scan(self, depth):
        """A delimited scan of the async reader had no delimiter ahead of it.
        The signature feature is set only if the scan can have run into the
        end of its source: always assumed for nested readers (their source is
        not observable), observed for the top-level reader (source finished)."""
        self.ctx.probe('scan_to_end')
        if self.flavour == 'async' and (depth > 0 or self.src.finished):
            self.after = AFTER_SCAN

    def where(self, cur, depth):
        return 'cursor %d/%d%s' % (cur.pos, cur.n, ' (nested reader, depth %d)' % depth if depth else '')

    def cmp(self, cur, depth, oid_op, sig_op, got, want, what='returned'):
        """Compare handed-out bytes with the flat stream at the cursor."""
        if got == want:
            return True
        if not isinstance(got, bytes):
            self.violate('op.' + oid_op, '%s %s %r (%s), expected bytes %r at %s' % (
                sig_op, what, got, type(got).__name__, want, self.where(cur, depth)),
                op=sig_op, got=type(got).__name__)
            return False
        p = cur.pos
        if cur.data[p:p + len(got)] == got:
            self.violate('op.' + oid_op, '%s %s %r, the flat cursor gives %r at %s (right bytes, '
                         'wrong extent)' % (sig_op, what, got, want, self.where(cur, depth)),
                         op=sig_op, got='extent')
        else:
            self.violate('conservation', '%s %s %r at %s where the flat stream continues with %r '
                         '(expected %r): bytes returned twice, skipped or invented' % (
                             sig_op, what, got, self.where(cur, depth),
                             cur.data[p:p + max(len(got), len(want)) + 2], want), op=sig_op)
        return False

    # -- generation (state-aware, all through the chooser) -----------------------
    def gen_delim(self, cur, allow_illegal, prefer_ahead=False):
        ch = self.ch
        cs = cur.cs
        maxl = cs if cs < 16 else 16      # legal delimiters: 1..chunk_size bytes
        rem = cur.remaining
        k = ch.draw(13, 'delim')
        if k >= 12 and not allow_illegal:
            k = 0
        if prefer_ahead and k < 4 and rem:
            k += 4          # a slice of the data ahead instead of random letters
        if k <= 3 or (rem == 0 and k <= 10):
            n = 1 + ch.small(maxl - 1, 'delim_len')
            return ch.bytes_from(self.alphabet, n, 'delim_byte')
        if k <= 8:
            # a slice of the data ahead: occurs at or before that place
            start = cur.pos + ch.small(rem - 1, 'delim_at')
            n = 1 + ch.small(min(maxl, cur.n - start) - 1, 'delim_len')
            return cur.data[start:start + n]
        if k == 9:
            # near miss: a slice ahead with a different / extra last byte
            start = cur.pos + ch.small(rem - 1, 'delim_at')
            n = 1 + ch.small(min(maxl, cur.n - start) - 1, 'delim_len')
            d = cur.data[start:start + n]
            extra = ch.bytes_from(self.alphabet, 1, 'delim_byte')
            if len(d) < maxl and ch.draw(2, 'delim_ext'):
                return d + extra
            return d[:-1] + extra
        if k == 10:
            # the tail of the data plus one byte: partial delimiter at the very end
            n = ch.small(min(maxl - 1, rem), 'delim_len')
            return cur.data[cur.n - n:] + ch.bytes_from(self.alphabet, 1, 'delim_byte') if n \
                else ch.bytes_from(self.alphabet, 1, 'delim_byte')
        if k == 11:
            return b'\n'
        # illegal length
        if cs <= 16 and ch.draw(2, 'illegal_kind'):
            return ch.bytes_from(self.alphabet, cs + 1, 'delim_byte')
        return b''

    def gen_size(self, cur, marks, allow_zero=True):
        ch = self.ch
        cs = cur.cs if cur.cs <= 16 else 16
        k = ch.draw(12, 'size')
        if k <= 3:
            v = ch.draw(2 * cs + 3, 'size_small')
        elif k <= 6:
            v = ch.choice(marks, 'size_mark') + ch.draw(3, 'size_delta') - 1
        elif k <= 8:
            v = ch.draw(cur.remaining + 3, 'size_any')
        elif k == 9:
            v = cs * (1 + ch.draw(3, 'size_mult'))
        elif k == 10:
            return -1
        else:
            return None
        if v < 0:
            v = 0
        if v == 0 and not allow_zero:
            v = 1
        return v

    def gen_op(self, cur, depth, st):
        ch = self.ch
        if self.flavour == 'sync':
            kinds, weights = SYNC_KINDS, list(SYNC_W)
            if depth >= 2:
                weights[6] = 0
        else:
            kinds, weights = ASYNC_KINDS, list(ASYNC_W)
            if depth >= 2:
                weights[6] = 0
            if st.iter_used:
                weights[7] = 0
        rem = cur.remaining
        if rem == 0 and weights[6]:
            weights[6] = 1      # a nested reader at the very end is mostly a dead end
        kind = kinds[ch.weighted(weights, 'op')]
        cs = cur.cs
        if kind == 'read':
            return ('read', self.gen_size(cur, (rem, cs, 1)))
        if kind == 'peek':
            k = ch.draw(6, 'peek')
            if k == 0:
                return ('peek', -1)
            if k <= 3:
                return ('peek', ch.draw((cs if cs <= 16 else 16) + 2, 'peek_n'))
            return ('peek', ch.draw(rem + 2, 'peek_n'))
        if kind == 'read_until':
            d = self.gen_delim(cur, True)
            dist = cur.find(d)
            marks = (dist, dist + len(d), rem, cs) if dist >= 0 else (rem, cs, rem - len(d) + 1)
            legal = cur.legal(d)
            # read_until(size=0) never starts the async scan, so an illegal
            # delimiter goes unnoticed there: outside the statement, not issued
            size = self.gen_size(cur, marks, allow_zero=legal)
            consume = ch.draw(4, 'consume') == 3
            if consume and dist >= 0 and ch.draw(2, 'consume_reach'):
                size = -1   # reaches the delimiter: the consuming path, not DelimiterError
            return ('read_until', d, size, consume)
        if kind == 'pipe_until':
            # at the end of the data the sync reader does not validate either
            consume = ch.draw(4, 'consume') == 3
            d = self.gen_delim(cur, rem > 0, prefer_ahead=consume)
            return ('pipe_until', d, bool(ch.draw(4, 'sink')), consume)
        if kind == 'readline':
            i = cur.find(b'\n')
            marks = (i, i + 1, rem) if i >= 0 else (rem, cs)
            return ('readline', self.gen_size(cur, marks))
        if kind == 'readlines':
            k = ch.draw(4, 'hint')
            if k == 0:
                return ('readlines', -1)
            return ('readlines', 1 + ch.draw(rem + 2, 'hint_n'))
        if kind == 'delimit':
            return ('delimit', self.gen_delim(cur, False, prefer_ahead=True))
        if kind == 'pipe':
            return ('pipe', bool(ch.draw(4, 'sink')))
        if kind == 'iter':
            k = ch.draw(4, 'iter')
            return ('iter', None if k == 0 else k)
        return (kind,)

    # -- expectation / invocation --------------------------------------------------
    def expect(self, cur, op):
        kind = op[0]
        if kind == 'read':
            return cur.read(op[1])
        if kind == 'peek':
            return cur.peek(op[1])
        if kind == 'read_until':
            return cur.read_until(op[1], op[2], op[3])
        if kind == 'pipe_until':
            return cur.pipe_until(op[1], op[3])
        if kind == 'readline':
            return cur.readline(op[1])
        if kind == 'readlines':
            return cur.readlines(op[1])
        if kind == 'readall':
            return cur.read(-1)
        if kind in ('pipe', 'exhaust'):
            return cur.pipe()
        raise HarnessError('no expectation for %r' % (op,))

    @staticmethod
    def invoke(reader, op, sink):
        """Returns the value (sync reader) or an awaitable (async reader)."""
        kind = op[0]
        if kind == 'read':
            return reader.read() if op[1] == -1 else reader.read(op[1])
        if kind == 'peek':
            return reader.peek() if op[1] == -1 else reader.peek(op[1])
        if kind == 'read_until':
            if op[2] == -1 and not op[3]:
                return reader.read_until(op[1])
            return reader.read_until(op[1], op[2], consume_delimiter=op[3])
        if kind == 'pipe_until':
            if sink is None and not op[3]:
                return reader.pipe_until(op[1])
            return reader.pipe_until(op[1], sink, consume_delimiter=op[3])
        if kind == 'readline':
            return reader.readline() if op[1] == -1 else reader.readline(op[1])
        if kind == 'readlines':
            return reader.readlines() if op[1] == -1 else reader.readlines(op[1])
        if kind == 'readall':
            return reader.readall()
        if kind == 'pipe':
            return reader.pipe(sink) if sink is not None else reader.pipe()
        if kind == 'exhaust':
            return reader.exhaust()
        raise HarnessError('cannot invoke %r' % (op,))

    @staticmethod
    def entry(op):
        return [_s(x) for x in op]

    def note_expectation(self, cur, op, exp):
        probe = self.ctx.probe
        kind = op[0]
        if kind in ('read_until', 'pipe_until') and exp.exc != 'ValueError':
            d = op[1]
            dist = cur.find(d)
            if dist >= 0 and len(d) > 1 and exp.pos >= cur.pos + dist:
                probe('delimiter_multibyte_found')
            if dist < 0 and len(d) > 1 and cur.remaining:
                tail = cur.data[cur.n - len(d) + 1:]
                for j in range(len(tail)):
                    if d.startswith(tail[j:]):
                        probe('delimiter_near_miss_at_end')
                        break
            if kind == 'read_until' and dist >= 0 and op[2] not in (None, -1) and op[2] < dist:
                probe('size_cap_before_delimiter')
            if op[3] and exp.kind != EXC:
                probe('consume_ok')
            if (kind == 'read_until' and self.join_chunks and op[2] not in (None, -1, 0)
                    and op[2] > self.join_chunks * cur.cs):
                probe('large_join_path')

    # -- judging -------------------------------------------------------------------
    def judge(self, cur, depth, st, op, exp, val, exc, sink):
        kind = op[0]
        ctx = self.ctx
        if exp.scan_to_end:
            self.note_scan(depth)
        if ctx.verdicts:
            # e.g. the over-read probe fired inside the operation
            self.stop = True
            return
        piped = b''.join(sink.parts) if sink is not None else None
        if exc is not None:
            if exp.kind == EXC and exc == exp.exc:
                if exc == 'DelimiterError':
                    if piped is not None and not self.cmp(cur, depth, kind, kind, piped,
                                                           exp.partial, 'piped'):
                        return
                    ctx.probe('delimiter_error')
                    if kind in ('pipe_until', 'read_until'):
                        # the delimiter was not there to skip: the cursor stands right behind
                        # the extent and the history goes on ("consumed data is never ... skipped")
                        cur.pos = exp.pos
                        if exp.end_probed:
                            st.end_seen = True
                        ctx.probe('continued_after_delimiter_error')
                    else:
                        self.stop = True
                        self.ended = 'delimiter_error'
                else:
                    ctx.probe('value_error')
                self.ops_done += 1
                st.last = kind
                ctx.event(depth, kind, exc)
                return
            self.violate('op.' + kind, '%s%r raised %s, the flat cursor gives %s at %s' % (
                kind, tuple(self.entry(op)[1:]), exc,
                exp.exc if exp.kind == EXC else repr(exp.value), self.where(cur, depth)),
                op=kind, got=exc)
            return
        if exp.kind == EXC:
            self.violate('op.' + kind, '%s%r returned %r, the flat cursor gives %s at %s' % (
                kind, tuple(self.entry(op)[1:]), val if piped is None else piped, exp.exc,
                self.where(cur, depth)), op=kind, got='no_exception')
            return
        if kind in VALUE_OPS:
            if not self.cmp(cur, depth, kind, kind, val, exp.value):
                return
            n = len(val)
        elif kind == 'readlines':
            if not isinstance(val, list):
                self.violate('op.readlines', 'readlines returned %r' % (val,), op=kind,
                             got=type(val).__name__)
                return
            try:
                joined = b''.join(val)
            except TypeError:
                joined = None
            if not self.cmp(cur, depth, kind, kind, joined, b''.join(exp.value)):
                return
            if val != exp.value:
                self.violate('op.readlines', 'readlines(%r) returned %r, the flat cursor gives %r '
                             'at %s (same bytes, different lines)' % (
                                 op[1], val, exp.value, self.where(cur, depth)), op=kind, got='split')
                return
            n = len(joined)
        elif piped is not None:
            if not self.cmp(cur, depth, kind, kind, piped, exp.value, 'piped'):
                return
            n = len(piped)
        else:
            n = -1
        cur.pos = exp.pos
        if exp.end_probed:
            st.end_seen = True
        st.last = kind
        self.ops_done += 1
        ctx.event(depth, kind, n)

    def judge_resync(self, cur, depth, ccur, part, found, d, sink, exc):
        """Parent pipe_until(d, sink, consume_delimiter=True) after the nested
        history: `piped` must be the not-yet-delivered tail of the part (the
        child may have looked ahead, never behind), and the delimiter must be
        found exactly when it exists."""
        ctx = self.ctx
        if not found:
            self.note_scan(depth)
        if ctx.verdicts:
            self.stop = True
            return
        piped = b''.join(sink.parts)
        want_exc = None if found else 'DelimiterError'
        if exc != want_exc:
            self.violate(None, 'after a nested reader on %r (part %r, child consumed %d): parent '
                         'pipe_until(consume_delimiter=True) %s, expected %s at %s' % (
                             _s(d), part, ccur.pos,
                             'raised ' + exc if exc else 'raised nothing',
                             want_exc or 'no exception', self.where(cur, depth)),
                         op='resync', oid='reader.nested.resync', flavour=self.flavour,
                         got=exc or 'no_exception')
            return
        if len(piped) > len(part) - ccur.pos or not part.endswith(piped):
            self.violate(None, 'after a nested reader on %r (part %r, child consumed %d bytes): '
                         'parent resync piped %r, which is not an unread tail of the part' % (
                             _s(d), part, ccur.pos, piped),
                         op='resync', oid='reader.nested.resync', flavour=self.flavour, got='data')
            return
        self.ops_done += 1
        if not found:
            self.stop = True
            self.ended = 'delimiter_error'
            ctx.probe('resync_missing_delimiter')
            ctx.event(depth, 'resync', 'DelimiterError')
            return
        ctx.probe('resync_ok')
        cur.pos += len(part) + len(d)
        ctx.event(depth, 'resync', len(piped))

    # -- sync driver -----------------------------------------------------------------
    def run_sync(self, reader, cur, depth, oplog, max_ops):
        ch = self.ch
        st = _State()
        n = 0
        while n < max_ops and not self.stop:
            if ch.draw(8, 'more') == 0:
                break
            op = self.gen_op(cur, depth, st)
            n += 1
            kind = op[0]
            self.cur_op = kind
            _JUMPS[0] = 0
            if kind == 'delimit':
                self.delimit_sync(reader, cur, depth, st, op, oplog)
                continue
            oplog.append(self.entry(op))
            sink = _Sink() if kind in ('pipe', 'pipe_until') and op[-1 if kind == 'pipe' else 2] else None
            exp = self.expect(cur, op)
            self.note_expectation(cur, op, exp)
            val = exc = None
            try:
                val = self.invoke(reader, op, sink)
            except Exception as ex:
                exc = type(ex).__name__
            self.judge(cur, depth, st, op, exp, val, exc, sink)
        return st

    def delimit_sync(self, reader, cur, depth, st, op, oplog):
        d = op[1]
        part, found = cur.part(d)
        child_log = []
        entry = ['delimit', _s(d), child_log]
        oplog.append(entry)
        self.ctx.probe('nested_depth2' if depth else 'nested')
        try:
            child = reader.delimit(d)
        except Exception as ex:
            self.violate('op.delimit', 'delimit(%r) raised %s' % (_s(d), type(ex).__name__),
                         op='delimit', got=type(ex).__name__)
            return
        ccur = Cursor(part, cur.cs)
        self.run_sync(child, ccur, depth + 1, child_log, 5 if depth == 0 else 3)
        if self.stop:
            return
        self.cur_op = 'resync'
        _JUMPS[0] = 0
        sink = _Sink()
        exc = None
        try:
            reader.pipe_until(d, sink, consume_delimiter=True)
        except Exception as ex:
            exc = type(ex).__name__
        entry.append('resync')
        self.judge_resync(cur, depth, ccur, part, found, d, sink, exc)
        st.last = 'resync'

    def run_sync_top(self):
        ctx = self.ctx
        src = SyncSource(self, self.data, self.max_len, self.short)
        self.src = src
        try:
            reader = BufferedReader(src.read, self.max_len, self.cs_arg)
            cur = Cursor(self.flat, self.cs)
            self.run_sync(reader, cur, 0, self.oplog, 10)
            if not self.stop:
                self.cur_op = 'final_drain'
                _JUMPS[0] = 0
                ctx.probe('final_drain')
                val = exc = None
                try:
                    val = reader.read()
                except Exception as ex:
                    exc = type(ex).__name__
                if ctx.verdicts:
                    pass
                elif exc is not None:
                    self.violate('op.read', 'final read() raised %s at %s' % (exc, self.where(cur, 0)),
                                 op='final_drain', got=exc)
                elif self.cmp(cur, 0, 'read', 'final_drain', val, cur.data[cur.pos:]):
                    cur.pos = cur.n
                    ctx.event('final', len(val))
        except _Abort as ex:
            self.violate('op.' + self._oid_op(), 'reader does not terminate: %s' % ex,
                         op=self.cur_op, got='livelock')
        ctx.steps = src.calls
        ctx.sched_key = ','.join('%d:%d' % t for t in src.trace[:200])
        ctx.nontrivial = self.ops_done >= 1 and (src.pieces >= 2 or src.shorts >= 1)
        return src

    # -- async driver ------------------------------------------------------------------
    async def run_async(self, reader, cur, depth, oplog, max_ops):
        ch = self.ch
        ctx = self.ctx
        st = _State()
        n = 0
        while n < max_ops and not self.stop:
            if ch.draw(8, 'more') == 0:
                break
            op = self.gen_op(cur, depth, st)
            n += 1
            kind = op[0]
            self.cur_op = kind
            _JUMPS[0] = 0
            if kind == 'delimit':
                await self.delimit_async(reader, cur, depth, st, op, oplog)
                continue
            oplog.append(self.entry(op))
            if kind == 'tell':
                self.check_tell(reader, cur, depth, st)
                continue
            if kind == 'eof':
                self.check_eof(reader, cur, depth, st)
                continue
            if kind == 'iter':
                await self.iterate(reader, cur, depth, st, op)
                continue
            sink = _AsyncSink() if kind in ('pipe', 'pipe_until') and op[-1 if kind == 'pipe' else 2] else None
            if sink is not None and depth == 0 and ch.draw(6, 'sink_fails') == 5:
                sink.fail_at = 1 + ch.draw(3, 'sink_fail_at')
            exp = self.expect(cur, op)
            self.note_expectation(cur, op, exp)
            val = exc = None
            try:
                val = await self.invoke(reader, op, sink)
            except SinkError:
                # the destination failed after accepting a chunk: what it was handed counts as
                # consumed -- it must be the flat bytes at the cursor, and is never handed out again
                got = b''.join(sink.parts)
                want = cur.data[cur.pos:cur.pos + len(got)]
                ctx.probe('sink_failed')
                ctx.ch.note_fired('sink_write_raises')
                if got != want:
                    self.violate('conservation', 'pipe handed %r to the destination at cursor %d where the '
                                 'flat stream has %r' % (got[:40], cur.pos, want[:40]), op=kind,
                                 after='sink_error')
                    return st
                cur.pos += len(got)
                st.last = kind
                self.after_sink_error = True
                continue
            except Exception as ex:
                exc = type(ex).__name__
            self.judge(cur, depth, st, op, exp, val, exc, sink)
        return st

    def check_tell(self, reader, cur, depth, st):
        try:
            got = reader.tell()
        except Exception as ex:
            got = type(ex).__name__
        if got != cur.pos:
            self.violate('tell', 'tell() == %r after %s, %s' % (got, st.last, self.where(cur, depth)),
                         op=st.last)
            return
        self.ops_done += 1
        self.ctx.event(depth, 'tell', got)

    def check_eof(self, reader, cur, depth, st):
        try:
            got = reader.eof
        except Exception as ex:
            got = type(ex).__name__
        at_end = cur.pos == cur.n
        if got is True and not at_end:
            self.violate('eof', 'eof is True after %s with data remaining, %s' % (
                st.last, self.where(cur, depth)), op=st.last, got='true_early')
            return
        if got is not True and got is not False:
            self.violate('eof', 'eof == %r' % (got,), op=st.last, got='type')
            return
        if at_end and st.end_seen:
            self.ctx.probe('eof_strict')
            if got is False:
                self.violate('eof', 'eof is False after %s although the cursor is at the end and '
                             'the reader already had to see the end of the stream, %s' % (
                                 st.last, self.where(cur, depth)), op=st.last, got='false_at_end')
                return
        self.ops_done += 1
        self.ctx.event(depth, 'eof', got)

    async def iterate(self, reader, cur, depth, st, op):
        st.iter_used = True
        limit = op[1]
        got = []
        ended = False
        try:
            it = reader.__aiter__()
            self.keep.append(it)
            while limit is None or len(got) < limit:
                try:
                    chunk = await it.__anext__()
                except StopAsyncIteration:
                    ended = True
                    break
                got.append(chunk)
        except Exception as ex:
            self.violate('op.iter', 'async iteration raised %s at %s' % (
                type(ex).__name__, self.where(cur, depth)), op='iter', got=type(ex).__name__)
            return
        try:
            joined = b''.join(got)
        except TypeError:
            self.violate('op.iter', 'async iteration yielded %r' % (got,), op='iter', got='type')
            return
        p = cur.pos
        if cur.data[p:p + len(joined)] != joined or len(joined) > cur.n - p:
            self.violate('conservation', 'async iteration yielded %r at %s where the flat stream '
                         'continues with %r' % (got, self.where(cur, depth), cur.data[p:]), op='iter')
            return
        cur.pos = p + len(joined)
        if ended:
            if cur.pos != cur.n:
                self.violate('op.iter', 'async iteration ended after %r, %d bytes are still unread' % (
                    got, cur.n - cur.pos), op='iter', got='extent')
                return
            st.end_seen = True
        else:
            self.ctx.probe('iter_partial')
        st.last = 'iter'
        self.ops_done += 1
        self.ctx.event(depth, 'iter', len(joined), ended)

    async def delimit_async(self, reader, cur, depth, st, op, oplog):
        d = op[1]
        part, found = cur.part(d)
        child_log = []
        entry = ['delimit', _s(d), child_log]
        oplog.append(entry)
        self.ctx.probe('nested_depth2' if depth else 'nested')
        try:
            child = reader.delimit(d)
        except Exception as ex:
            self.violate('op.delimit', 'delimit(%r) raised %s' % (_s(d), type(ex).__name__),
                         op='delimit', got=type(ex).__name__)
            return
        self.keep.append(child)
        ccur = Cursor(part, cur.cs)
        if self.ch.draw(5, 'parent_peek_before_child') == 4:
            # the caller looks at what is coming (without consuming anything) between creating the
            # sub-reader and first using it
            k = 1 + self.ch.draw(6, 'peek_len')
            want = cur.data[cur.pos:cur.pos + k]
            try:
                got = await reader.peek(k)
            except Exception as ex:
                got = type(ex).__name__
            entry.append('parent_peek(%d)' % k)
            self.ctx.probe('parent_peek_before_child')
            if not (isinstance(got, bytes) and want.startswith(got)):
                self.violate('op.peek', 'parent peek(%d) right after delimit() returned %r, the flat cursor '
                             'gives %r' % (k, got, want), op='peek', got='extent')
                return
        await self.run_async(child, ccur, depth + 1, child_log, 5 if depth == 0 else 3)
        if self.stop:
            return
        self.cur_op = 'resync'
        _JUMPS[0] = 0
        sink = _AsyncSink()
        exc = None
        try:
            await reader.pipe_until(d, sink, consume_delimiter=True)
        except Exception as ex:
            exc = type(ex).__name__
        entry.append('resync')
        self.judge_resync(cur, depth, ccur, part, found, d, sink, exc)
        st.last = 'resync'

    async def main_async(self, src):
        ctx = self.ctx
        reader = AsyncBufferedReader(src.gen(), self.cs_arg)
        cur = Cursor(self.flat, self.cs)
        by = None
        if self.ch.draw(4, 'bystander_reader') == 3:
            # an unrelated reader (another request on the same loop) does sized reads of its own
            # data whenever this history's source keeps the reader waiting
            by = asyncio.ensure_future(self.bystander())
            ctx.probe('bystander_reader')
        st = await self.run_async(reader, cur, 0, self.oplog, 10)
        if by is not None:
            got, want = await by
            if got != want and not ctx.verdicts:
                self.violate('conservation', 'an independent reader on the same loop returned %r for its own '
                             'stream %r' % (got[:60], want[:60]), op='bystander')
                return
        if self.stop:
            return
        self.cur_op = 'final_drain'
        _JUMPS[0] = 0
        ctx.probe('final_drain')
        val = exc = None
        try:
            val = await reader.read()
        except Exception as ex:
            exc = type(ex).__name__
        if exc is not None:
            self.violate('op.read', 'final read() raised %s at %s' % (exc, self.where(cur, 0)),
                         op='final_drain', got=exc)
            return
        if not self.cmp(cur, 0, 'read', 'final_drain', val, cur.data[cur.pos:]):
            return
        cur.pos = cur.n
        st.end_seen = True
        if st.last in ('new', 'tell', 'eof'):
            st.last = 'final_drain'
        # the indicators at the very end: strict in every reading of the statement
        try:
            t = reader.tell()
        except Exception as ex:
            t = type(ex).__name__
        if t != cur.n:
            self.violate('tell', 'tell() == %r after the final read() of a %d byte stream (last '
                         'operation before it: %s)' % (t, cur.n, st.last), op='final_drain')
            return
        try:
            e = reader.eof
        except Exception as ex:
            e = type(ex).__name__
        if e is not True:
            self.violate('eof', 'eof == %r after the final read() returned everything' % (e,),
                         op='final_drain', got='false_at_end')
            return
        ctx.event('final', len(val), t, e)

    async def bystander(self):
        data = bytes(65 + (i * 7) % 26 for i in range(41))

        async def gen2():
            for i in range(0, len(data), 3):
                await asyncio.sleep(0)
                yield data[i:i + 3]
        r2 = AsyncBufferedReader(gen2(), self.cs_arg)
        out = b''
        for _ in range(200):
            piece = await r2.read(5)
            if not piece:
                break
            out += piece
        return out, data

    def run_async_top(self):
        ctx = self.ctx
        src = AsyncSource(self, self.data, self.src_mode, self.cs if self.cs <= 16 else 16)
        self.src = src
        loop = SimLoop(self.ch, src, max_steps=8000)
        src.loop = loop
        self.loop = loop
        try:
            task = loop.run_main(self.main_async(src))
            if not task.done():
                self.violate('op.' + self._oid_op(), '%s never completes: the reader is blocked with '
                             'nothing runnable (source %s)' % (
                                 self.cur_op, 'finished' if src.finished else 'waiting to be pulled'),
                             op=self.cur_op, got='hang')
            else:
                ex = task.exception()
                if isinstance(ex, _Abort):
                    self.violate('op.' + self._oid_op(), 'reader does not terminate: %s' % ex,
                                 op=self.cur_op, got='livelock')
                elif ex is not None:
                    raise HarnessError('history interpreter failed: %s' % ''.join(
                        traceback.format_exception(type(ex), ex, ex.__traceback__, limit=8)))
            for e in loop.errors:
                if not ctx.verdicts:
                    self.violate('op.' + self._oid_op(), 'background failure on the loop: %s' % e,
                                 op=self.cur_op, got='loop_error')
        except (SimBudgetExceeded, _Abort) as ex:
            self.violate('op.' + self._oid_op(), 'reader does not terminate: %s' % ex,
                         op=self.cur_op, got='livelock')
        finally:
            ctx.steps = loop.steps
            ctx.vtime = loop.time()
            try:
                loop.drain()
            finally:
                loop.close()
        ctx.sched_key = ','.join(str(k) for k in src.trace[:200]) + '|' + loop.sig()[:200]
        ctx.nontrivial = self.ops_done >= 1 and src.pieces >= 2
        return src

    def _oid_op(self):
        return 'read' if self.cur_op in ('resync', 'final_drain', 'init') else self.cur_op


def run(ctx):
    saved = (sync_mod.DEFAULT_CHUNK_SIZE, sync_mod._MAX_JOIN_CHUNKS,
             async_mod.DEFAULT_CHUNK_SIZE, async_mod._MAX_JOIN_CHUNKS)
    h = Hist(ctx)
    src = None
    try:
        h.setup()
        if h.flavour == 'sync':
            src = h.run_sync_top()
        else:
            src = h.run_async_top()
    finally:
        (sync_mod.DEFAULT_CHUNK_SIZE, sync_mod._MAX_JOIN_CHUNKS,
         async_mod.DEFAULT_CHUNK_SIZE, async_mod._MAX_JOIN_CHUNKS) = saved
        src = src or getattr(h, 'src', None)
        if src is not None:
            ctx.plan = h.plan(src)
            ctx.plan_key = json.dumps([ctx.plan[k] for k in sorted(ctx.plan)
                                       if k not in ('source_calls', 'source_chunks', 'ended')],
                                      sort_keys=True)
        ctx.ops_done = h.ops_done
        h.keep = None
    ctx.event('end', h.flavour, h.ended, h.ops_done)
