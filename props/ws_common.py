"""Shared WebSocket harness for C17 and C18: a real falcon.asgi.App whose
on_websocket responder executes a generated script against the fake ASGI
server, under the simulated loop."""
import asyncio
import copy

import falcon
import falcon.asgi
from falcon import errors as ferrors
from falcon.asgi.ws import WebSocketOptions  # noqa: F401
from falcon.constants import WebSocketPayloadType

from detsim.asgi_sim import Conn, WsMonitor, ws_scope
from detsim.simloop import Env, SimBudgetExceeded, SimLoop


class BinJSON(object):
    """Binary media handler (msgpack is not installed): JSON bytes."""

    def serialize(self, media):
        import json
        return json.dumps(media).encode()

    def deserialize(self, payload):
        import json
        return json.loads(payload.decode())


class CustomAppError(Exception):
    pass


class Obs(object):
    """What the script observed for one operation."""
    __slots__ = ('op', 'kind', 'value', 'exc', 'code', 'pulled_before', 'closed_before',
                 'state_before', 'step', 'extra', 'pulled_after', 'send_failed_during',
                 'closes_sent', 'lost_before', 'while_closing', 'refused_during')

    def __init__(self, op):
        self.op = op
        self.kind = None       # 'ok' | 'exc'
        self.while_closing = False
        self.refused_during = False
        self.value = None
        self.exc = None
        self.code = None
        self.pulled_before = False
        self.closed_before = False
        self.state_before = None
        self.step = 0
        self.extra = None
        self.pulled_after = False
        self.send_failed_during = False
        self.closes_sent = 0
        self.lost_before = False

    def brief(self):
        if self.kind == 'ok':
            return '%s->ok:%r' % (self.op[0], self.value)
        return '%s->%s(%s)' % (self.op[0], self.exc, self.code)


class WsHarness(object):
    def __init__(self, ctx, cfg, client, script, app_cfg=None):
        self.ctx = ctx
        self.ch = ctx.ch
        self.cfg = cfg
        self.client = client          # dict: events, messages, disconnect_code
        self.script = script
        self.app_cfg = app_cfg or {}
        self.obs = []
        self.consumed = 0             # client messages consumed by the application
        self.accepted_by_app = False
        self.app_closed = False       # app-initiated close completed / attempted
        self.disc_reported = False    # some op already raised WebSocketDisconnected
        self.script_done = False
        self.script_exc = None
        self.in_recv = 0
        self.app_returned = False
        self.app_exc = None
        self.final_injected = False
        self.children = set()
        self.cleanup_checked = False
        self.handler_calls = []
        self.mw_calls = []
        self.first_disc_recv = None
        self.closing = False          # an application close() has started
        self.bg_tasks = []
        self.rbg_tasks = []
        self.blocked = False
        self.finished = False
        self._build()

    # -- construction --------------------------------------------------------
    def _build(self):
        cfg = self.cfg
        self.env = _WsEnv(self)
        self.loop = SimLoop(self.ch, self.env, max_steps=cfg.get('max_steps', 4000),
                            app_weight=cfg.get('w_app', 3))
        self.loop.step_hooks.append(self.step_check)
        h = self

        class Resource(object):
            async def on_websocket(self, req, ws, **params):
                await h.run_script(req, ws)

        class NoWsResource(object):
            async def on_get(self, req, resp):
                pass

        mws = []
        for spec in self.app_cfg.get('middleware', ()):
            mws.append(_make_ws_middleware(self, spec))
        app = falcon.asgi.App(middleware=mws)
        app.ws_options.max_receive_queue = cfg['max_queue']
        app.ws_options.media_handlers[WebSocketPayloadType.BINARY] = BinJSON()
        if 'error_close_code' in self.app_cfg:
            app.ws_options.error_close_code = self.app_cfg['error_close_code']
        app.add_route('/ws', Resource())
        app.add_route('/nows', NoWsResource())
        hk = self.app_cfg.get('custom_handler')
        if hk:
            app.add_error_handler(CustomAppError, _make_error_handler(self, hk))
        self.app = app
        self.monitor = WsMonitor(cfg.get('spec_version', '2.3'))
        scope = ws_scope(path=self.app_cfg.get('path', '/ws'),
                         spec_version=cfg.get('spec_version', '2.3'),
                         subprotocols=self.app_cfg.get('subprotocols', ()))
        if cfg.get('omit_spec_version'):
            del scope['asgi']['spec_version']
        self.scope = scope
        self.conn = Conn(self, 'websocket', scope, self.client['events'], self.monitor,
                         recv_suspends=cfg.get('recv_suspends', False),
                         send_suspends=cfg.get('send_suspends', False),
                         lost_mode=cfg.get('lost_mode', 'oserror'))
        self.conn.fail_send_at = frozenset(cfg.get('fail_send_at', ()))
        self.conn.reject_close_codes = frozenset(cfg.get('reject_close_codes', ()))
        self.conn.refuse_send_at = frozenset(cfg.get('refuse_send_at', ()))

    def note(self, name):
        self.ctx.probe(name)

    @property
    def chooser(self):
        return self.ch

    # -- the responder script --------------------------------------------------
    async def run_script(self, req, ws):
        self.ws = ws
        try:
            for op in self.script:
                o = Obs(op)
                o.pulled_before = self.conn.disconnect_pulled
                o.closed_before = self.app_closed
                o.step = self.loop.app_steps
                o.lost_before = self.conn.lost
                self.obs.append(o)
                failed0 = self.conn.failed_sends + len(self.conn.dropped)
                refused0 = self.conn.refused_sends
                closes0 = self.monitor.closes
                try:
                    stop = await self._do(op, o, ws)
                    if o.kind is None:
                        o.kind = 'ok'
                except asyncio.CancelledError:
                    raise
                except _ScriptRaise as sr:
                    o.kind = 'ok'
                    self.ctx.event('op', o.brief())
                    self.script_exc = sr.exc
                    raise sr.exc
                except Exception as ex:
                    o.kind = 'exc'
                    o.exc = type(ex).__name__
                    o.code = getattr(ex, 'code', None)
                    o.extra = str(ex)[:80]
                    stop = False
                    if isinstance(ex, ferrors.WebSocketDisconnected):
                        if op[0] == 'recv' and not self.app_closed and not self.disc_reported:
                            self.first_disc_recv = (self.consumed, o.code)
                        self.disc_reported = True
                o.pulled_after = self.conn.disconnect_pulled
                o.send_failed_during = self.conn.failed_sends + len(self.conn.dropped) > failed0
                o.refused_during = self.conn.refused_sends > refused0
                o.closes_sent = self.monitor.closes - closes0
                self.ctx.event('op', o.brief())
                self.ctx.ops_done += 1
                if stop:
                    break
            await self._join_bg()
            for t in list(self.rbg_tasks):
                if not t.done():
                    try:
                        await t
                    except asyncio.CancelledError:
                        if not t.cancelled():
                            raise
        finally:
            for t in self.bg_tasks + self.rbg_tasks:
                if not t.done():
                    t.cancel()
            self.script_done = True

    async def _join_bg(self):
        for t in list(self.bg_tasks):
            if not t.done():
                try:
                    await t
                except asyncio.CancelledError:
                    if not t.cancelled():
                        raise
        self.bg_tasks = []

    async def _do(self, op, o, ws):
        kind = op[0]
        if kind == 'accept':
            await ws.accept(subprotocol=op[1], headers=op[2])
            self.accepted_by_app = True
        elif kind == 'recv':
            self.in_recv += 1
            try:
                if op[1] == 'text':
                    v = await ws.receive_text()
                elif op[1] == 'data':
                    v = await ws.receive_data()
                else:
                    v = await ws.receive_media()
                    if isinstance(v, dict):
                        kept = copy.deepcopy(v)
                        v['touched-by-the-app'] = True      # the application owns what it received
                        v.get('l', []).append('x')
                        v = kept
            except ferrors.PayloadTypeError:
                self.consumed += 1
                raise
            finally:
                self.in_recv -= 1
            self.consumed += 1
            o.value = v
        elif kind == 'send':
            payload = op[2]
            if op[1] == 'text':
                await ws.send_text(payload)
            elif op[1] == 'data':
                await ws.send_data(payload)
            elif op[1] == 'media':
                await ws.send_media(payload)
            else:
                await ws.send_media(payload, WebSocketPayloadType.BINARY)
        elif kind == 'pause':
            for _ in range(op[1]):
                await asyncio.sleep(0)
        elif kind == 'send_bg':
            # a sender task running concurrently with the responder's receives
            payload = op[1]

            async def bg():
                bo = Obs(('send', 'text', payload))
                bo.pulled_before = self.conn.disconnect_pulled
                bo.closed_before = self.app_closed or self.closing
                bo.lost_before = self.conn.lost
                bo.step = self.loop.app_steps
                self.obs.append(bo)
                try:
                    await ws.send_text(payload)
                    bo.kind = 'ok'
                except asyncio.CancelledError:
                    bo.kind = 'exc'
                    bo.exc = 'CancelledError'
                    raise
                except Exception as ex:
                    bo.kind = 'exc'
                    bo.exc = type(ex).__name__
                    bo.code = getattr(ex, 'code', None)
                    if isinstance(ex, ferrors.WebSocketDisconnected):
                        self.disc_reported = True
                bo.pulled_after = self.conn.disconnect_pulled
                self.ctx.event('op', 'bg', bo.brief())
            t = asyncio.ensure_future(bg())
            self.bg_tasks.append(t)
            self.note('send_bg')
        elif kind == 'recv_bg':
            # a receiver task running concurrently with the responder's later send / close steps
            # (the script issues no further receive of its own: concurrent receives are not allowed)
            async def rbg():
                for _ in range(op[1]):
                    await asyncio.sleep(0)
                bo = Obs(('recv', 'text'))
                bo.pulled_before = self.conn.disconnect_pulled
                bo.closed_before = self.app_closed or self.closing
                bo.lost_before = self.conn.lost
                bo.step = self.loop.app_steps
                self.obs.append(bo)
                self.in_recv += 1
                try:
                    bo.value = await ws.receive_text()
                    self.consumed += 1
                    bo.kind = 'ok'
                except asyncio.CancelledError:
                    bo.kind = 'exc'
                    bo.exc = 'CancelledError'
                    raise
                except Exception as ex:
                    bo.kind = 'exc'
                    bo.exc = type(ex).__name__
                    bo.code = getattr(ex, 'code', None)
                    bo.extra = str(ex)[:80]
                    # did it fail while the other task's close() was in progress?
                    bo.while_closing = bool(self.closing and not self.app_closed)
                    if isinstance(ex, ferrors.PayloadTypeError):
                        self.consumed += 1
                    if isinstance(ex, ferrors.WebSocketDisconnected):
                        self.disc_reported = True
                finally:
                    self.in_recv -= 1
                bo.pulled_after = self.conn.disconnect_pulled
                self.ctx.event('op', 'rbg', bo.brief())
            t = asyncio.ensure_future(rbg())
            self.rbg_tasks.append(t)
            self.note('recv_bg')
        elif kind == 'join':
            await self._join_bg()
        elif kind == 'recv_cancel':
            async def child():
                self.in_recv += 1
                try:
                    v = await ws.receive_text()
                    self.consumed += 1
                    return v
                except ferrors.PayloadTypeError:
                    self.consumed += 1
                    raise
                finally:
                    self.in_recv -= 1
            t = asyncio.ensure_future(child())
            self.children.add(t)
            for _ in range(op[1]):
                if t.done():
                    break
                await asyncio.sleep(0)
            if not t.done():
                t.cancel()
                self.note('recv_cancelled')
            try:
                v = await t
                o.value = v
                o.extra = 'completed'
            except asyncio.CancelledError:
                if not t.cancelled():
                    raise
                o.value = None
                o.extra = 'cancelled'
            finally:
                self.children.discard(t)
        elif kind == 'close':
            if getattr(self, 'close_joins_bg', True):
                await self._join_bg()       # else: senders of the second task race with the close
            self.closing = True
            try:
                if len(op) > 2 and op[2] is not None:
                    await ws.close(op[1], op[2])
                else:
                    await ws.close(op[1])
            except ferrors.WebSocketDisconnected:
                # the close event could not be sent (connection lost): the background reader
                # must be stopped all the same
                self.app_closed = True
                self.close_check()
                raise
            self.app_closed = True
            self.close_check()
        elif kind == 'raise':
            raise _ScriptRaise(_make_exc(op[1]))
        elif kind == 'return':
            return True
        elif kind == 'props':
            o.value = (ws.unaccepted, ws.ready, ws.closed)
        return False

    # -- a second, well-behaved connection on the same app ------------------------------
    def setup_background(self, n_msgs, queue_profile=None):
        h = self
        self.bg_sent = ['x%d' % i for i in range(n_msgs)]
        self.bg_got = []
        self.bg_done = False
        self.bg_exc = None

        class BgResource(object):
            async def on_websocket(self, req, ws):
                await ws.accept()
                try:
                    while True:
                        h.bg_got.append(await ws.receive_text())
                except ferrors.WebSocketDisconnected:
                    pass

        self.app.add_route('/bg', BgResource())
        events = [{'type': 'websocket.connect'}] + [{'type': 'websocket.receive', 'text': m} for m in self.bg_sent] \
            + [{'type': 'websocket.disconnect', 'code': 1000}]
        self.bg_monitor = WsMonitor(self.cfg.get('spec_version', '2.3'))
        self.bg_scope = ws_scope(path='/bg', spec_version=self.cfg.get('spec_version', '2.3'))
        self.bg_conn = Conn(self, 'websocket', self.bg_scope, events, self.bg_monitor,
                            recv_suspends=self.cfg.get('recv_suspends', False),
                            send_suspends=self.cfg.get('send_suspends', False), lost_mode='drop', name='bg')

    async def bg_driver(self):
        try:
            await self.app(self.bg_scope, self.bg_conn.receive, self.bg_conn.send)
        except asyncio.CancelledError:
            raise
        except Exception as ex:
            self.bg_exc = ex
        self.bg_done = True

    # -- driver ------------------------------------------------------------------
    async def driver(self):
        bg = None
        if getattr(self, 'bg_conn', None) is not None:
            # started as an independent root: its pump/children are not the main session's
            bg = self.loop.create_task(self.bg_driver())
            bg.sim_root = bg
            self.bg_task = bg
        try:
            await self._main_session()
        finally:
            if bg is not None:
                if not bg.done():
                    try:
                        await bg
                    except asyncio.CancelledError:
                        if not bg.cancelled():
                            raise

    async def _main_session(self):
        try:
            await self.app(self.scope, self.conn.receive, self.conn.send)
        except asyncio.CancelledError:
            raise
        except Exception as ex:
            self.app_exc = ex
        self.app_returned = True
        self.cleanup_check('return')

    def execute(self):
        ctx = self.ctx
        try:
            task = self.loop.run_main(self.driver())
            self.finished = task.done()
            if not task.done():
                self.blocked = True
        except SimBudgetExceeded as ex:
            ctx.violate('ws.budget', 'step budget exceeded: %s' % ex)
            self.finished = False
        finally:
            ctx.steps = self.loop.steps
            ctx.vtime = self.loop.time()
            ctx.sched_key = self.loop.sig()
            try:
                self.loop.drain()
            finally:
                self.loop.close()

    # -- checks used by both properties -----------------------------------------
    def held_messages(self):
        msgs = 0
        for ev in self.conn.pulled:
            if ev['type'] == 'websocket.receive':
                msgs += 1
        return msgs - self.consumed

    def step_check(self):
        pass

    def close_check(self):
        pass

    def cleanup_check(self, where):
        pass

    def on_quiescent(self):
        return False


class _ScriptRaise(Exception):
    def __init__(self, exc):
        self.exc = exc


def _make_exc(what):
    k = what[0]
    if k == 'http_error':
        return falcon.HTTPError(what[1])
    if k == 'http_named':
        return {404: falcon.HTTPNotFound, 403: falcon.HTTPForbidden,
                400: falcon.HTTPBadRequest, 503: falcon.HTTPServiceUnavailable}[what[1]]()
    if k == 'http_status':
        return falcon.HTTPStatus(what[1])
    if k == 'custom':
        return CustomAppError('custom')
    if k == 'ws_disconnected':
        return falcon.WebSocketDisconnected(1001)
    return RuntimeError('generic failure')


def _make_error_handler(h, spec):
    """spec: ('ws'|'nows', action) where action in 'return' | 'close:<code>' |
    'raise_http:<status>' | 'raise_status:<status>'"""
    with_ws, action = spec

    async def _act(ws):
        h.handler_calls.append(action)
        if action == 'return':
            return
        if action.startswith('close:'):
            if ws is not None:
                await ws.close(int(action[6:]))
            return
        if action.startswith('raise_http:'):
            raise falcon.HTTPError(int(action[11:]))
        if action.startswith('raise_status:'):
            raise falcon.HTTPStatus(int(action[13:]))

    if with_ws == 'ws':
        async def handler(req, resp, ex, params, ws=None):
            await _act(ws)
    else:
        async def handler(req, resp, ex, params):
            await _act(None)
    return handler


def _make_ws_middleware(h, spec):
    """spec: dict(request=action|None, resource=action|None); action in
    'ok' | 'raise:<what>'"""

    class MW(object):
        pass

    if spec.get('request'):
        act = spec['request']

        async def process_request_ws(self, req, ws):
            h.mw_calls.append(('request', act))
            if act != 'ok':
                raise _make_exc(act)
        MW.process_request_ws = process_request_ws
    if spec.get('resource') or not spec.get('request'):
        act2 = spec.get('resource') or 'ok'

        async def process_resource_ws(self, req, ws, resource, params):
            h.mw_calls.append(('resource', act2))
            if act2 != 'ok':
                raise _make_exc(act2)
        MW.process_resource_ws = process_resource_ws
    return MW()


class _WsEnv(Env):
    def __init__(self, h):
        self.h = h

    def actions(self):
        c = self.h.cfg
        acts = self.h.conn.actions(c.get('w_deliver', 2), c.get('w_resolve', 2), c.get('w_ack', 2))
        bg = getattr(self.h, 'bg_conn', None)
        if bg is not None:
            acts = list(acts) + list(bg.actions(2, 2, 2))
        return acts

    def on_quiescent(self):
        return self.h.on_quiescent()


# ---------------------------------------------------------------------------
# generators
# ---------------------------------------------------------------------------
def gen_client(ch, max_msgs=6, allow_abandon=False, text_only=False):
    events = []
    messages = []
    abandoned = False
    if allow_abandon and ch.draw(12, 'abandon') == 11:
        abandoned = True
    else:
        events.append({'type': 'websocket.connect'})
        n = ch.draw(max_msgs + 1, 'n_msgs')
        # servers differ in how they spell a message event: only the key that carries the payload,
        # or both keys with the other one None (the ASGI spec allows either)
        both = ch.draw(3, 'event_both_keys') == 2
        # payloads are JSON documents; in 'containers' mode they are small objects that repeat, and
        # the responder changes what receive_media() gave it in place (its own copy to play with)
        containers = ch.draw(4, 'container_payloads') == 3
        for i in range(n):
            k = 0 if text_only else ch.draw(3, 'msg_kind')
            if k in (0, 1):
                # text; payload is valid JSON so receive_media works too
                p = ('{"n": %d, "l": [1]}' % (i % 2)) if containers else '"m%d"' % i
                events.append({'type': 'websocket.receive', 'text': p, 'bytes': None} if both else
                              {'type': 'websocket.receive', 'text': p})
                messages.append(('text', p))
            else:
                p = (('{"n": %d, "l": [2]}' % (i % 2)) if containers else '"b%d"' % i).encode()
                events.append({'type': 'websocket.receive', 'bytes': p, 'text': None} if both else
                              {'type': 'websocket.receive', 'bytes': p})
                messages.append(('bytes', p))
    code = None
    d = ch.draw(4, 'disconnect')
    if abandoned or d >= 2:
        code = ch.choice([1000, 1001, 1006, 3001, 4000], 'disc_code')
        ev = {'type': 'websocket.disconnect', 'code': code}
        if ch.draw(6, 'disc_nocode') == 5:
            del ev['code']
            code = 1000   # the framework's documented default when absent
        events.append(ev)
    return {'events': events, 'messages': messages, 'disconnect_code': code,
            'abandoned': abandoned}


def gen_cfg(ch, queues=(0, 1, 2, 3, 4)):
    cfg = {}
    cfg['max_queue'] = ch.choice(list(queues), 'max_queue')
    prof = ch.draw(4, 'profile')     # 0 balanced, 1 eager client, 2 lazy client, 3 slow acks
    cfg['profile'] = prof
    cfg['w_app'] = [3, 1, 6, 3][prof]
    cfg['w_deliver'] = [2, 6, 1, 2][prof]
    cfg['w_resolve'] = [2, 4, 1, 2][prof]
    cfg['w_ack'] = [2, 3, 2, 1][prof]
    cfg['recv_suspends'] = bool(ch.draw(2, 'recv_suspends'))
    cfg['send_suspends'] = bool(ch.draw(2, 'send_suspends'))
    return cfg
