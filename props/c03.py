"""C03 -- middleware, hooks and responder run in the documented stack order,
once each (DESIGN section 4, C03). An action (return / complete / raise ...)
is injected at every call site (single-site sweep) and at random site subsets;
a small reference interpreter of the documented discipline gives the expected
call trace, process_response arguments and final status."""
import asyncio
import json

import falcon
import falcon.asgi

from detsim.asgi_sim import Conn, LifespanMonitor
from detsim.simloop import Env, SimBudgetExceeded, SimLoop
from props.stack_common import (AppError, AppErrorUnhandled, Stack, _Sim, gen_stack, run_asgi,
                                run_wsgi)

PROPERTY = 'C03'
LEVEL = 'fault_enumeration'
RUNS = {'quick': 6000, 'thorough': 250000}
SWEEP = True
SWEEP_CAP = {'quick': 48, 'thorough': 110}
BATCH = 100
RULE = ('one workload = one generated stack (0-4 middleware components each implementing a subset of '
        'process_request/resource/response, sync or *_async, 0-3 nested before/after hooks, independent or '
        'dependent mode, routed or unrouted request, WSGI or ASGI) or one ASGI lifespan script; its fault '
        'sweep = one extra run per (call site x action) pair with that action injected there (complete, '
        'HTTP error, handled app error, unhandled app error; handler variants), plus runs with random '
        'multi-site assignments; non-trivial = >=1 non-default action was actually reached (or a lifespan '
        'handler failed); distinct = distinct (plan, action assignment, schedule) triples')
COMPONENTS = {
    'real': ['falcon.App.__call__ / falcon.asgi.App.__call__ request pipeline', 'app_helpers.prepare_middleware',
             'falcon.hooks before/after wrappers', 'error handler dispatch', 'asgi lifespan handling'],
    'stub': ['WSGI/ASGI servers', 'event loop scheduler', 'generated middleware / hooks / responder / '
             'error handler', 'reference interpreter (oracle)'],
}
EXPECTED_PROBES = ('sink_target', 'second_request', 'dependent_mode', 'independent_mode', 'unrouted', 'complete_reached', 'raise_in_response',
                   'handler_called', 'hook_raised', 'lifespan_startup_failed', 'lifespan_shutdown_failed', 'second_lifespan_cycle',
                   'asgi_stack', 'wsgi_stack')
ASSUMPTIONS = (
    'hooks never set resp.complete (the statement does not say what that would mean)',
    'error handlers either return or raise HTTPError/HTTPStatus (other raises are unspecified)',
)

MW_KINDS = ['complete', 'raise_http', 'raise_app', 'raise_unhandled', 'raise_status']
RESP_KINDS = ['raise_http', 'raise_app', 'raise_unhandled', 'raise_status']
HOOK_KINDS = ['raise_http', 'raise_app', 'raise_status']
HANDLER_KINDS = ['raise_http', 'raise_status']     # default: set status and return


def sites_of(plan):
    s = []
    for i, c in enumerate(plan['components']):
        if c['request']:
            s.append(('mw%d.request' % i, MW_KINDS))
        if c['resource']:
            s.append(('mw%d.resource' % i, MW_KINDS))
        if c['response']:
            s.append(('mw%d.response' % i, RESP_KINDS))
    for idx, kind in enumerate(plan['hooks']):
        s.append(('hook%d.%s' % (idx, kind), HOOK_KINDS))
    s.append(('responder', MW_KINDS))
    if plan.get('sink'):
        s.append(('sink', MW_KINDS))
    s.append(('handler', HANDLER_KINDS))
    return s


def assign_actions(ctx, plan):
    """Single-site sweep (ctx.opportunity) or a random multi-site assignment."""
    ch = ctx.ch
    asg = {}
    multi = ch.draw(4, 'multi') == 3
    sites = sites_of(plan)
    if multi:
        for site, kinds in sites:
            if ch.draw(3, 'act?') == 2:
                asg[site] = kinds[ch.draw(len(kinds), 'kind')]
    ctx.draw_fault_site(limit=95)
    if not multi:
        for site, kinds in sites:
            for k in kinds:
                if ctx.opportunity('action:' + k):
                    asg[site] = k
    return asg, multi


def make_act(asg, reached):
    def act(site):
        a = asg.get(site)
        if a is None:
            return None
        reached.append(site)
        if a == 'complete':
            return 'complete'
        if a == 'raise_http':
            return falcon.HTTPError(409, title='conflict')
        if a == 'raise_app':
            return AppError(site)
        if a == 'raise_unhandled':
            return AppErrorUnhandled(site)
        if a == 'raise_status':
            return falcon.HTTPStatus(202)
        return None
    return act


def reference(plan, asg):
    """Documented stack discipline -> (trace, response args, final status)."""
    comps = plan['components']
    trace, args = [], []
    state = {'status': 200, 'complete': False}

    def handle(kind):
        if kind == 'raise_http':
            state['status'] = 409
        elif kind == 'raise_status':
            state['status'] = 202        # falcon.HTTPStatus is a raise like any other
        elif kind == 'raise_unhandled':
            state['status'] = 500
        elif kind == 'raise_app':
            trace.append('handler')
            h = asg.get('handler')
            if h == 'raise_http':
                state['status'] = 409
            elif h == 'raise_status':
                state['status'] = 202
            else:
                state['status'] = 451

    def do(site):
        trace.append(site)
        a = asg.get(site)
        if a is None:
            return 'ok'
        if a == 'complete':
            state['complete'] = True
            return 'ok'
        handle(a)
        return 'raise'

    failed = False
    resource = False
    dep = []
    if plan['independent']:
        for i, c in enumerate(comps):
            if c['request']:
                if do('mw%d.request' % i) == 'raise':
                    failed = True
                    break
                if state['complete']:
                    break
    else:
        for i, c in enumerate(comps):
            if not (c['request'] or c['response']):
                continue
            if c['request'] and not state['complete']:
                if do('mw%d.request' % i) == 'raise':
                    failed = True
                    break
            if c['response']:
                dep.insert(0, i)
    succeeded = False
    if not failed:
        if not state['complete'] and plan['routed']:
            resource = True
        raised = False
        if resource:
            for i, c in enumerate(comps):
                if c['resource']:
                    if do('mw%d.resource' % i) == 'raise':
                        raised = True
                        break
                    if state['complete']:
                        break
        if not raised and not state['complete']:
            if not plan['routed'] and plan.get('sink'):
                raised = do('sink') == 'raise'      # a sink is a responder without a resource
            elif not plan['routed']:
                state['status'] = 404
                raised = True
            else:
                hooks = plan['hooks']

                def chain(idx):
                    if idx == len(hooks):
                        return do('responder')
                    site = 'hook%d.%s' % (idx, hooks[idx])
                    if hooks[idx] == 'before':
                        if do(site) == 'raise':
                            return 'raise'
                        return chain(idx + 1)
                    if chain(idx + 1) == 'raise':
                        return 'raise'
                    return do(site)
                raised = chain(0) == 'raise'
        succeeded = not raised
    order = [i for i in range(len(comps) - 1, -1, -1) if comps[i]['response']] \
        if plan['independent'] else dep
    for i in order:
        site = 'mw%d.response' % i
        trace.append(site)
        args.append((i, resource, not resource, succeeded))
        a = asg.get(site)
        if a is not None and a != 'complete':
            handle(a)
            succeeded = False
    return trace, args, state['status']


def setup_handlers(handler_act):
    def extra(app, st):
        if st.asgi:
            async def handler(req, resp, ex, params):
                st.lane(req)[0].append('handler')
                a = handler_act('handler')
                if a is not None:
                    raise a
                resp.status = 451
        else:
            def handler(req, resp, ex, params):
                st.lane(req)[0].append('handler')
                a = handler_act('handler')
                if a is not None:
                    raise a
                resp.status = 451
        app.add_error_handler(AppError, handler)
    return extra


def run_stack(ctx):
    ch = ctx.ch
    plan = gen_stack(ch)
    asgi = bool(ch.draw(2, 'asgi'))
    asg, multi = assign_actions(ctx, plan)
    ctx.probe('asgi_stack' if asgi else 'wsgi_stack')
    ctx.probe('independent_mode' if plan['independent'] else 'dependent_mode')
    if not plan['routed']:
        ctx.probe('unrouted')
    ctx.plan = {'kind': 'stack', 'stack': plan, 'asgi': asgi, 'actions': asg, 'multi': multi}
    ctx.plan_key = json.dumps(ctx.plan, sort_keys=True)
    trace, resp_args, reached = [], [], []
    act = make_act(asg, reached)

    def factory(pause):
        return Stack(plan, asgi, act, trace, resp_args, pause=pause,
                     extra_setup=setup_handlers(act))

    path = '/r/x' if plan['routed'] else ('/sink/x' if plan.get('sink') else '/nope')
    if plan.get('sink') and not plan['routed']:
        ctx.probe('sink_target')
    trace_b, args_b = [], []
    second = None
    if asgi and ch.draw(2, 'second_request'):
        # a second, fault-free request interleaves on the same app (lane B)
        second = ('/r/y', lambda st_: st_.add_lane('B', trace_b, args_b, lambda site: None))
        ctx.probe('second_request')
    if asgi:
        conn, st, finished, app_exc, sig = run_asgi(ctx, factory, path, second=second)
        mon = conn.monitor
        status = mon.status
        ctx.sched_key = 'A' + sig
        if not finished:
            ctx.violate('stack.hang', 'request did not complete')
            return
        for oid, msg in mon.violations:
            ctx.violate(oid, msg)
    else:
        ex, st = run_wsgi(ctx, factory, path)
        status = ex.status_code
        app_exc = ex.app_exc
        ctx.sched_key = 'W'
        for oid, msg in ex.violations:
            ctx.violate(oid, msg)
    if app_exc is not None:
        ctx.violate('stack.escaped', 'exception escaped the app: %r' % (app_exc,))
        return
    want_trace, want_args, want_status = reference(plan, asg)
    want_args = [(i, r, n, s) for (i, r, n, s) in want_args]
    ctx.event('trace', trace, status)
    sigk = {'mode': 'independent' if plan['independent'] else 'dependent', 'stack': 'asgi' if asgi else 'wsgi'}
    if trace != want_trace:
        ctx.violate('stack.trace', 'call trace %r, documented discipline gives %r (actions %r, plan %r)' % (
            trace, want_trace, asg, plan), **sigk)
    elif resp_args != want_args:
        ctx.violate('stack.response_args', 'process_response saw (component, is_resource, resource_is_none, '
                    'req_succeeded) = %r, expected %r (actions %r)' % (resp_args, want_args, asg), **sigk)
    elif status != want_status:
        ctx.violate('stack.status', 'final status %r, expected %r (actions %r, trace %r)' % (
            status, want_status, asg, trace), **sigk)
    if second is not None:
        plan_b = dict(plan)
        plan_b['routed'] = True
        wb_trace, wb_args, wb_status = reference(plan_b, {})
        got_status_b = st.conn2.monitor.status
        if st.exc2 is not None:
            ctx.violate('stack.escaped', 'exception escaped the app (second request): %r' % (st.exc2,))
        elif trace_b != wb_trace or args_b != wb_args or got_status_b != wb_status:
            ctx.violate('stack.trace', 'a concurrent fault-free request on the same app saw trace %r / args %r / '
                        'status %r, expected %r / %r / %r (first request: actions %r)' % (
                            trace_b, args_b, got_status_b, wb_trace, wb_args, wb_status, asg),
                        what='concurrent_request', **sigk)
    ctx.ops_done = len(trace)
    ctx.nontrivial = bool(reached)
    ctx.sched_key += '|' + json.dumps(asg, sort_keys=True)
    if 'handler' in trace:
        ctx.probe('handler_called')
    for s in reached:
        if asg.get(s) == 'complete':
            ctx.probe('complete_reached')
        if s.endswith('.response'):
            ctx.probe('raise_in_response')
        if s.startswith('hook'):
            ctx.probe('hook_raised')


# ---------------------------------------------------------------------------
# lifespan
# ---------------------------------------------------------------------------
class _LEnv(Env):
    def __init__(self):
        self.conn = None

    def actions(self):
        return self.conn.actions(3, 3, 3)


def _lifespan_cycle(ctx, app, comps, events, fail, trace, cycle):
    ch = ctx.ch
    env = _LEnv()
    loop = SimLoop(ch, env, max_steps=3000)
    sim = _Sim(loop, ch, ctx)
    scope = {'type': 'lifespan', 'asgi': {'version': '3.0', 'spec_version': '2.0'}}
    script = [{'type': 'lifespan.' + e} for e in events]
    conn = Conn(sim, 'lifespan', scope, script, LifespanMonitor(),
                recv_suspends=bool(ch.draw(2, 'recv_suspends')),
                send_suspends=bool(ch.draw(2, 'send_suspends')))
    env.conn = conn
    result = {}

    async def driver():
        try:
            await app(scope, conn.receive, conn.send)
        except Exception as ex:
            result['exc'] = ex

    quiescent_ok = False
    try:
        task = loop.run_main(driver())
        finished = task.done()
        quiescent_ok = True
    except SimBudgetExceeded:
        finished = False
    ctx.steps += loop.steps
    ctx.sched_key = (ctx.sched_key or '') + 'L' + loop.sig()
    try:
        loop.drain()
    finally:
        loop.close()
    # reference
    want_trace, want_events = [], []
    stopped = False
    for i, c in enumerate(comps):
        if c['startup']:
            want_trace.append('%d.startup' % i)
            if fail.get((i, 'startup')):
                want_events.append('lifespan.startup.failed')
                stopped = True
                ctx.probe('lifespan_startup_failed')
                break
    if not stopped:
        want_events.append('lifespan.startup.complete')
        if 'shutdown' in events:
            for i in range(len(comps) - 1, -1, -1):
                if comps[i]['shutdown']:
                    want_trace.append('%d.shutdown' % i)
                    if fail.get((i, 'shutdown')):
                        want_events.append('lifespan.shutdown.failed')
                        stopped = True
                        ctx.probe('lifespan_shutdown_failed')
                        break
            if not stopped:
                want_events.append('lifespan.shutdown.complete')
    got_events = [e.get('type') for e in conn.monitor.events]
    ctx.event('lifespan', trace, got_events)
    for oid, msg in conn.monitor.violations:
        ctx.violate(oid, msg)
    if 'exc' in result:
        ctx.violate('lifespan.escaped', 'exception escaped: %r' % (result['exc'],))
    if trace != want_trace:
        ctx.violate('lifespan.order', 'cycle %d: handlers ran as %r, expected %r (fail %r)' % (
            cycle, trace, want_trace, sorted(fail)))
    elif got_events != want_events:
        ctx.violate('lifespan.events', 'server saw %r, expected %r' % (got_events, want_events))
    # after startup.complete without a shutdown event the app legitimately waits for more events
    if not finished and quiescent_ok:
        waiting_ok = (not stopped and 'shutdown' not in events)
        if not waiting_ok:
            ctx.violate('lifespan.hang', 'lifespan callable did not return (events %r)' % (got_events,))
    return finished


def run_lifespan(ctx):
    ch = ctx.ch
    n = ch.draw(5, 'n_components')
    comps = []
    for _ in range(n):
        m = ch.draw(4, 'lm')            # bit0 startup, bit1 shutdown
        comps.append({'startup': bool(m & 1), 'shutdown': bool(m & 2),
                      'request': bool(ch.draw(2, 'has_req'))})
    events = ['startup', 'shutdown'] if ch.draw(4, 'only_startup') else ['startup']
    ctx.draw_fault_site(limit=95)
    fail = {}
    for i, c in enumerate(comps):
        for ph in ('startup', 'shutdown'):
            if c[ph] and ctx.opportunity('lifespan_handler_raises'):
                fail[(i, ph)] = True
    ctx.plan = {'kind': 'lifespan', 'components': comps, 'events': events,
                'fail': sorted('%d.%s' % k for k in fail)}
    ctx.plan_key = json.dumps(ctx.plan, sort_keys=True)
    trace = []
    mws = []
    for i, c in enumerate(comps):
        ns = {}
        if c['startup']:
            def mk(i):
                async def process_startup(self, scope, event):
                    trace.append('%d.startup' % i)
                    await asyncio.sleep(0)
                    if fail.get((i, 'startup')):
                        raise RuntimeError('startup %d' % i)
                return process_startup
            ns['process_startup'] = mk(i)
        if c['shutdown']:
            def mk2(i):
                async def process_shutdown(self, scope, event):
                    trace.append('%d.shutdown' % i)
                    await asyncio.sleep(0)
                    if fail.get((i, 'shutdown')):
                        raise RuntimeError('shutdown %d' % i)
                return process_shutdown
            ns['process_shutdown'] = mk2(i)
        if c['request'] or not ns:
            async def process_request(self, req, resp):
                pass
            ns['process_request'] = process_request
        mws.append(type('L%d' % i, (object,), ns)())
    app = falcon.asgi.App(middleware=mws)
    # a second lifespan cycle on the same app object (what test clients and reloading servers do)
    # must run the handlers again
    cycles = 2 if ('shutdown' in events and ch.draw(3, 'second_cycle') == 2) else 1
    total = 0
    for cycle in range(cycles):
        if cycle:
            ctx.probe('second_lifespan_cycle')
        del trace[:]
        finished = _lifespan_cycle(ctx, app, comps, events, fail, trace, cycle)
        total += len(trace)
        if not finished or ctx.verdicts:
            break
    ctx.ops_done = total
    ctx.nontrivial = bool(fail) or total >= 2


def run(ctx):
    if ctx.ch.draw(6, 'kind') == 5:
        run_lifespan(ctx)
    else:
        run_stack(ctx)
