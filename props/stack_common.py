"""Shared harness for C03/C04: a generated stack of middleware components,
hooks and a responder on a real falcon.App / falcon.asgi.App. Every generated
callable records its call site in a trace and then performs the action
assigned to that site (return / complete / raise ...)."""
import io

import falcon
import falcon.asgi

from detsim.asgi_sim import Conn, HttpMonitor, body_events, http_scope
from detsim.simloop import Env, SimBudgetExceeded, SimLoop
from detsim.wsgi_sim import WsgiExchange, make_environ


class AppError(Exception):
    """Application error with a registered handler."""


class AppErrorUnhandled(Exception):
    """Application error without a handler (falls to the default 500 handler)."""


def gen_stack(ch, max_components=4):
    n = ch.draw(max_components + 1, 'n_components')
    comps = []
    for _ in range(n):
        m = ch.draw(7, 'methods') + 1          # bitmask request|resource|response, non-empty
        comps.append({'request': bool(m & 1), 'resource': bool(m & 2), 'response': bool(m & 4),
                      # ASGI: which methods carry the *_async suffix (bit per method; styles may be mixed)
                      'async_suffix': [0, 7, 0, 7, 1, 2, 4, 3, 5, 6][ch.draw(10, 'suffix')]})
    nh = ch.draw(4, 'n_hooks')
    hooks = [ch.choice(['before', 'after'], 'hook') for _ in range(nh)]   # outermost first
    tgt = ch.draw(6, 'target')
    return {'components': comps, 'hooks': hooks,
            'independent': bool(ch.draw(2, 'independent')),
            'routed': tgt < 4,
            'sink': tgt == 5,                                  # unrouted path served by a sink
            'split': ch.draw(n + 1, 'mw_split') if n else 0,   # components [split:] are added via add_middleware()
            'class_hooks': [0, 0, 1, 2][ch.draw(4, 'class_hooks')],   # 1: on the class, 2: responder inherited
            # ASGI only: components with lifespan or WebSocket methods only, listed among the others
            # (position in 0..n, kind); they take no part in HTTP processing
            'aux': [(ch.draw(n + 1, 'aux_pos'), ch.choice(['lifespan', 'ws'], 'aux_kind'))
                    for _ in range(ch.weighted([3, 1, 1], 'n_aux'))]}


class Stack(object):
    """Builds the app for a plan; `act(site)` decides what a call site does."""

    def __init__(self, plan, asgi, act, trace, resp_args, pause=None, extra_setup=None,
                 response_type=None):
        self.plan = plan
        self.asgi = asgi
        self.act = act
        self.trace = trace
        self.resp_args = resp_args
        self.pause = pause
        self.resource = None
        # one lane per concurrent request (selected by the X-Req header)
        self.lanes = {'A': (trace, resp_args, act)}
        self.app = self._build(extra_setup, response_type)

    def add_lane(self, tag, trace, resp_args, act):
        self.lanes[tag] = (trace, resp_args, act)

    def lane(self, req):
        return self.lanes.get(req.get_header('X-Req') or 'A') or self.lanes['A']

    # what a site does after having been recorded
    def _perform(self, site, req, resp):
        a = self.lane(req)[2](site)
        if a is None or a == 'return':
            return
        if a == 'complete':
            resp.complete = True
            return
        if isinstance(a, BaseException):
            raise a
        if callable(a):
            a(req, resp)
            return
        raise RuntimeError('unknown action %r' % (a,))

    def _build(self, extra_setup, response_type):
        st = self
        plan = self.plan
        comps = []
        for i, c in enumerate(plan['components']):
            ns = {}
            if self.asgi:
                sfx = ['_async' if int(c['async_suffix']) & b else '' for b in (1, 2, 4)]

                def mk_req(i):
                    async def process_request(self, req, resp):
                        st.lane(req)[0].append('mw%d.request' % i)
                        if st.pause:
                            await st.pause()
                        st._perform('mw%d.request' % i, req, resp)
                    return process_request

                def mk_rsrc(i):
                    async def process_resource(self, req, resp, resource, params):
                        st.lane(req)[0].append('mw%d.resource' % i)
                        if st.pause:
                            await st.pause()
                        st._perform('mw%d.resource' % i, req, resp)
                    return process_resource

                def mk_resp(i):
                    async def process_response(self, req, resp, resource, req_succeeded):
                        st.lane(req)[0].append('mw%d.response' % i)
                        st.lane(req)[1].append((i, resource is not None and resource is st.resource,
                                             resource is None, req_succeeded))
                        if st.pause:
                            await st.pause()
                        st._perform('mw%d.response' % i, req, resp)
                    return process_response
            else:
                sfx = ['', '', '']

                def mk_req(i):
                    def process_request(self, req, resp):
                        st.lane(req)[0].append('mw%d.request' % i)
                        st._perform('mw%d.request' % i, req, resp)
                    return process_request

                def mk_rsrc(i):
                    def process_resource(self, req, resp, resource, params):
                        st.lane(req)[0].append('mw%d.resource' % i)
                        st._perform('mw%d.resource' % i, req, resp)
                    return process_resource

                def mk_resp(i):
                    def process_response(self, req, resp, resource, req_succeeded):
                        st.lane(req)[0].append('mw%d.response' % i)
                        st.lane(req)[1].append((i, resource is not None and resource is st.resource,
                                             resource is None, req_succeeded))
                        st._perform('mw%d.response' % i, req, resp)
                    return process_response
            if c['request']:
                ns['process_request' + sfx[0]] = mk_req(i)
            if c['resource']:
                ns['process_resource' + sfx[1]] = mk_rsrc(i)
            if c['response']:
                ns['process_response' + sfx[2]] = mk_resp(i)
            comps.append(type('MW%d' % i, (object,), ns)())

        # responder + hooks (hooks[0] is the outermost decorator)
        if self.asgi:
            async def on_get(self, req, resp, **params):
                st.lane(req)[0].append('responder')
                if st.pause:
                    await st.pause()
                st._perform('responder', req, resp)
        else:
            def on_get(self, req, resp, **params):
                st.lane(req)[0].append('responder')
                st._perform('responder', req, resp)
        fn = on_get
        hooks = plan['hooks']
        class_level = []
        for idx in range(len(hooks) - 1, -1, -1):
            kind = hooks[idx]
            site = 'hook%d.%s' % (idx, kind)
            if kind == 'before':
                if self.asgi:
                    def mk(site):
                        async def action(req, resp, resource, params):
                            st.lane(req)[0].append(site)
                            st._perform(site, req, resp)
                        return action
                else:
                    def mk(site):
                        def action(req, resp, resource, params):
                            st.lane(req)[0].append(site)
                            st._perform(site, req, resp)
                        return action
                if plan.get('class_hooks') and idx == 0:
                    class_level.append(falcon.before(mk(site)))
                else:
                    fn = falcon.before(mk(site))(fn)
            else:
                if self.asgi:
                    def mk(site):
                        async def action(req, resp, resource):
                            st.lane(req)[0].append(site)
                            st._perform(site, req, resp)
                        return action
                else:
                    def mk(site):
                        def action(req, resp, resource):
                            st.lane(req)[0].append(site)
                            st._perform(site, req, resp)
                        return action
                if plan.get('class_hooks') and idx == 0:
                    class_level.append(falcon.after(mk(site)))
                else:
                    fn = falcon.after(mk(site))(fn)
        if plan.get('class_hooks') == 2:
            # the decorated class inherits its responder from an undecorated base
            Res = type('Res', (type('Base', (object,), {'on_get': fn}),), {})
        else:
            Res = type('Res', (object,), {'on_get': fn})
        for deco in class_level:      # the outermost hook is applied to the resource class
            Res = deco(Res)
        self.resource = Res()
        cls = falcon.asgi.App if self.asgi else falcon.App
        kw = {}
        if response_type is not None:
            kw['response_type'] = response_type
        split = plan.get('split', len(comps))
        if self.asgi and plan.get('aux'):
            async def process_startup(self, scope, event):
                pass

            async def process_request_ws(self, req, ws):
                pass
            marks = list(comps)
            for pos, kind in sorted(plan['aux'], reverse=True):
                aux = type('Aux', (object,), {'process_startup': process_startup} if kind == 'lifespan'
                           else {'process_request_ws': process_request_ws})()
                marks.insert(min(pos, len(marks)), aux)
            # keep the constructor / add_middleware() split in front of the same component
            split = marks.index(comps[split]) if split < len(comps) else len(marks)
            comps = marks
        if comps and 0 < split < len(comps) + 1 and split != len(comps):
            app = cls(middleware=comps[:split], independent_middleware=plan['independent'], **kw)
            app.add_middleware(comps[split:])
        elif comps and split == 0:
            app = cls(independent_middleware=plan['independent'], **kw)
            app.add_middleware(comps)
        else:
            app = cls(middleware=comps, independent_middleware=plan['independent'], **kw)
        app.add_route('/r/{p}', self.resource)
        if plan.get('sink'):
            if self.asgi:
                async def sink(req, resp, **kw):
                    st.lane(req)[0].append('sink')
                    if st.pause:
                        await st.pause()
                    st._perform('sink', req, resp)
            else:
                def sink(req, resp, **kw):
                    st.lane(req)[0].append('sink')
                    st._perform('sink', req, resp)
            app.add_sink(sink, '/sink')
        if extra_setup:
            extra_setup(app, self)
        return app


class _Env(Env):
    def __init__(self):
        self.conn = None
        self.conn2 = None
        self.paused = []
        self.ch = None

    def actions(self):
        acts = list(self.conn.actions(3, 3, 3)) if self.conn else []
        if self.conn2 is not None:
            acts.extend(self.conn2.actions(3, 3, 3))
        if getattr(self, 'conn0', None) is not None:
            acts.extend(self.conn0.actions(3, 3, 3))
        live = [f for f in self.paused if not f.done()]
        self.paused = live
        if live:
            acts.append(('p', 3, self._resume))
        return acts

    def _resume(self):
        i = self.ch.draw(len(self.paused), 'resume') if len(self.paused) > 1 else 0
        f = self.paused.pop(i)
        if not f.done():
            f.set_result(None)


class _Sim(object):
    def __init__(self, loop, ch, ctx):
        self.loop, self.chooser, self.ctx = loop, ch, ctx

    def note(self, name):
        self.ctx.probe(name)


def run_wsgi(ctx, stack_factory, path, headers=(), method='GET', pre=None, unreadable_body=False):
    """stack_factory(pause) -> Stack. Returns (exchange, stack). `pre` = path of a
    request served first on the same app (lane P); `unreadable_body`: the request
    announces a body whose read() fails (the application never reads it)."""
    from detsim.wsgi_sim import SimInput
    st = stack_factory(None)
    if pre is not None:
        env0 = make_environ(method='GET', path=pre, headers=[('X-Req', 'P')], body_input=io.BytesIO(b''))
        ex0 = WsgiExchange(ctx)
        if ex0.call(st.app, env0):
            ex0.consume()
        st.pre_status = ex0.status_code
    if unreadable_body:
        inp = SimInput(ctx, b'0123456789', b'', limit=10)
        inp.raise_at_call = 0
        env = make_environ(method=method, path=path, headers=list(headers), body_input=inp,
                           content_length=10, content_type='application/octet-stream')
    else:
        env = make_environ(method=method, path=path, headers=list(headers), body_input=io.BytesIO(b''))
    ex = WsgiExchange(ctx)
    if ex.call(st.app, env):
        ex.consume()
    return ex, st


def run_asgi(ctx, stack_factory, path, headers=(), method='GET', concurrent_pause=True,
             fail_send_at=(), send_suspends=None, second=None, pre=None, unreadable_body=False):
    """Returns (conn, stack, finished, app_exc, loop_sig). `second` = (path,
    setup(stack)) runs a second request concurrently on the same app (lane B)."""
    ch = ctx.ch
    env = _Env()
    env.ch = ch
    loop = SimLoop(ch, env, max_steps=4000)
    sim = _Sim(loop, ch, ctx)

    async def pause():
        f = loop.create_future()
        env.paused.append(f)
        await f

    st = stack_factory(pause if concurrent_pause else None)
    scope = http_scope(method=method, path=path, headers=list(headers))
    if send_suspends is None:
        send_suspends = bool(ch.draw(2, 'send_suspends'))
    if unreadable_body:
        scope['headers'] = scope['headers'] + [(b'content-length', b'10'),
                                               (b'content-type', b'application/octet-stream')]
        events0 = [{'type': 'http.request', 'body': b'01234', 'more_body': True}]
    else:
        events0 = body_events([])
    conn = Conn(sim, 'http', scope, events0, HttpMonitor(),
                recv_suspends=bool(ch.draw(2, 'recv_suspends')),
                send_suspends=send_suspends, lost_mode='oserror')
    if unreadable_body:
        conn.fail_recv_at = frozenset([1])     # the next receive() fails: connection reset
    conn.fail_send_at = frozenset(fail_send_at)
    env.conn = conn
    result = {}
    conn2 = None
    if second is not None:
        path2, setup2 = second
        setup2(st)
        scope2 = http_scope(method=method, path=path2, headers=list(headers) + [('X-Req', 'B')])
        conn2 = Conn(sim, 'http', scope2, body_events([]), HttpMonitor(),
                     recv_suspends=True, send_suspends=True, lost_mode='oserror', name='B')
        env.conn2 = conn2

    async def one(c, sc, key):
        try:
            await st.app(sc, c.receive, c.send)
        except Exception as ex:
            result[key] = ex

    conn0 = None
    if pre is not None:
        scope0 = http_scope(method='GET', path=pre, headers=[('X-Req', 'P')])
        conn0 = Conn(sim, 'http', scope0, body_events([]), HttpMonitor(), lost_mode='oserror', name='P')
        env.conn0 = conn0

    async def driver():
        if conn0 is not None:
            await one(conn0, scope0, 'exc0')
        if conn2 is None:
            await one(conn, scope, 'exc')
            return
        import asyncio
        t1 = asyncio.ensure_future(one(conn, scope, 'exc'))
        t2 = asyncio.ensure_future(one(conn2, scope2, 'exc2'))
        await t1
        await t2

    finished = False
    try:
        task = loop.run_main(driver())
        finished = task.done()
    except SimBudgetExceeded:
        finished = False
    ctx.steps += loop.steps
    sig = loop.sig()
    try:
        loop.drain()
    finally:
        loop.close()
    st.conn2 = conn2
    st.exc2 = result.get('exc2')
    return conn, st, finished, result.get('exc'), sig
