"""C12 -- media round-trips unchanged and request media is parsed at most once
(DESIGN section 4, C12)."""
import copy
import json

import falcon
import falcon.asgi
import falcon.media

from detsim.asgi_sim import Conn, HttpMonitor, http_scope
from detsim.simloop import Env, SimBudgetExceeded, SimLoop
from detsim.wsgi_sim import SimInput, WsgiExchange, make_environ

PROPERTY = 'C12'
LEVEL = 'exploration'
RUNS = {'quick': 3500, 'thorough': 100000}
SWEEP = True
SWEEP_CAP = {'quick': 20, 'thorough': 40}
BATCH = 150
RULE = ('one workload = one generated JSON document (nested containers, all scalar kinds, unicode incl. astral and '
        'escape-worthy characters, big ints) or URL-encoded form mapping x content type (plain, with parameters, '
        '+json suffix via a registered handler) x WSGI/ASGI x request-body chunking and delivery timing x a history '
        'of <=5 get_media()/get_media(default_when_empty=..)/media accesses; step 1 serializes the document through '
        'resp.media, step 2 sends those bytes back. Its fault sweep = one run per truncation point (early EOF / '
        'http.disconnect) and per single-byte corruption (invalid UTF-8, deleted byte, structural byte) plus the '
        'empty body; non-trivial = the history made >=2 media accesses or a fault fired; distinct = distinct '
        '(plan, fault, schedule) triples')
COMPONENTS = {
    'real': ['falcon.media.JSONHandler', 'falcon.media.URLEncodedFormHandler', 'media_handlers resolution',
             'Request.get_media / Request.media (WSGI and ASGI) incl. value and error caching',
             'Response.media rendering', 'request body streams'],
    'stub': ['WSGI/ASGI servers and clients', 'event loop scheduler', 'responders executing the access history'],
}
EXPECTED_PROBES = ('io_error', 'json_doc', 'form_doc', 'plus_json', 'empty_body', 'truncated', 'corrupted', 'default_used',
                   'repeat_call', 'null_document', 'earlier_request_same_body', 'parse_attempts_counted', 'asgi_multi_chunk', 'error_cached', 'wsgi', 'asgi')
ASSUMPTIONS = (
    'documents contain no lone surrogates or NaN/Infinity; a top-level null is only posted, never sent through '
    'resp.media (None means "no media" there)',
    'form mappings use str values or lists of >=2 strs (a 1-element list legitimately comes back as a str)',
    'a truncated body that happens to be a valid document may parse successfully (to exactly that document)',
)

STRS = ['', 'a', 'plain text', 'ünï ✓', '\U0001F600 astral', 'quote " backslash \\ slash /', 'line\nfeed\ttab\r',
        '   separators', '\ufffd replacement \ufffd', '</script>', '\x7f del \x01 ctl', '{"not": "json"}', 'key with spaces', '0']
NUMS = [0, 1, -1, 2 ** 70, -(2 ** 65), 255, 0.5, -0.0, 1e300, 3.141592653589793, 1e-7, True, False, None]


def gen_json(ch, depth=0):
    k = ch.weighted([4, 4, 3, 3] if depth < 3 else [4, 4, 0, 0], 'node')
    if k == 0:
        return STRS[ch.draw(len(STRS), 'str')]
    if k == 1:
        return NUMS[ch.draw(len(NUMS), 'num')]
    if k == 2:
        return [gen_json(ch, depth + 1) for _ in range(ch.draw(4, 'len'))]
    d = {}
    for _ in range(ch.draw(4, 'len')):
        d[STRS[ch.draw(len(STRS), 'key')]] = gen_json(ch, depth + 1)
    return d


def gen_form(ch):
    d = {}
    for _ in range(ch.draw(5, 'len')):
        key = ch.choice(['a', 'b c', 'ü', 'k&=', 'x+y', 'empty', 'q'], 'fkey')
        if ch.draw(3, 'multi') == 2:
            d[key] = [STRS[ch.draw(len(STRS), 'fval')] for _ in range(2 + ch.draw(2, 'n'))]
        else:
            d[key] = STRS[ch.draw(len(STRS), 'fval')]
    return d


def same(a, b):
    if type(a) is not type(b):
        return False
    if isinstance(a, dict):
        return a.keys() == b.keys() and all(same(a[k], b[k]) for k in a)
    if isinstance(a, list):
        return len(a) == len(b) and all(same(x, y) for x, y in zip(a, b))
    if isinstance(a, float):
        return a == b and str(a) == str(b)
    return a == b


class _Env(Env):
    def __init__(self):
        self.conn = None

    def actions(self):
        return self.conn.actions(3, 3, 3)


class _Sim(object):
    def __init__(self, loop, ch, ctx):
        self.loop, self.chooser, self.ctx = loop, ch, ctx

    def note(self, name):
        self.ctx.probe(name)


class CountingHandler(falcon.media.BaseHandler):
    """Delegates to a stock handler and counts the parse attempts (no optimised sync protocol, so
    the framework goes through deserialize()/deserialize_async())."""

    def __init__(self, inner, calls):
        self.inner = inner
        self.calls = calls
        self.exhaust_stream = inner.exhaust_stream

    def serialize(self, media, content_type=None):
        return self.inner.serialize(media, content_type)

    def deserialize(self, stream, content_type, content_length):
        self.calls.append('sync')
        return self.inner.deserialize(stream, content_type, content_length)

    async def deserialize_async(self, stream, content_type, content_length):
        self.calls.append('async')
        return await self.inner.deserialize_async(stream, content_type, content_length)


PARSE_CALLS = {}     # id(app) -> parse attempts (App has __slots__)
DEFAULT_A = {'sentinel': 'A'}
DEFAULT_B = ['sentinel', 'B']


def make_app(asgi, kind, ctype, doc, hist, out, counter, propagate, prerender=False, custom_resp=False,
             handler_variant=None):
    cls = falcon.asgi.App if asgi else falcon.App
    if custom_resp:
        # a Response subclass (no overrides): the app must go through render_body() itself
        base = falcon.asgi.Response if asgi else falcon.Response
        app = cls(response_type=type('Resp', (base,), {}))
    else:
        app = cls()
    if handler_variant == 'bytes_dumps':
        # a third-party JSON library style: dumps() returns bytes (orjson), loads() takes str or bytes
        hb = falcon.media.JSONHandler(dumps=lambda o: json.dumps(o, ensure_ascii=False).encode('utf-8'),
                                      loads=json.loads)
        app.req_options.media_handlers['application/json'] = hb
        app.resp_options.media_handlers['application/json'] = falcon.media.JSONHandler(
            dumps=lambda o: json.dumps(o, ensure_ascii=False).encode('utf-8'), loads=json.loads)
    if '+json' in ctype:
        h = falcon.media.JSONHandler()
        app.req_options.media_handlers['application/vnd.api+json'] = h
        app.resp_options.media_handlers['application/vnd.api+json'] = falcon.media.JSONHandler()
    parse_calls = PARSE_CALLS[id(app)] = []
    if handler_variant == 'counting':
        for mt in ('application/json', 'application/x-www-form-urlencoded', 'application/vnd.api+json'):
            inner = app.req_options.media_handlers.get(mt)
            if inner is not None:
                app.req_options.media_handlers[mt] = CountingHandler(inner, parse_calls)

    def record(req, call, fn):
        before = counter()
        try:
            v = fn()
            rec = {'call': call, 'ok': True, 'value': v, 'obj': v}
        except Exception as ex:
            rec = {'call': call, 'ok': False, 'exc': ex, 'cls': type(ex).__name__,
                   'status': getattr(ex, 'status', None)}
        rec['stream_delta'] = counter() - before
        out.append(rec)
        return rec

    if asgi:
        class Doc(object):
            async def on_get(self, req, resp):
                resp.content_type = ctype
                if prerender == 1:
                    # render an earlier value first: the rendering cache must not go stale
                    resp.media = {'earlier': 'value'}
                    await resp.render_body()
                    resp.media = doc
                elif prerender == 2 and isinstance(doc, (dict, list)):
                    # render, change the document in place, assign the same object again
                    m = copy.copy(doc)
                    if isinstance(m, dict):
                        m['__tmp__'] = 1
                    else:
                        m.append('__tmp__')
                    resp.media = m
                    await resp.render_body()
                    if isinstance(m, dict):
                        del m['__tmp__']
                    else:
                        m.pop()
                    resp.media = resp.media
                else:
                    resp.media = doc

        class Echo(object):
            async def on_post(self, req, resp):
                first_err = None
                for call in hist:
                    before = counter()
                    try:
                        if call == 'get':
                            v = await req.get_media()
                        elif call == 'media':
                            v = await req.media
                        elif call == 'default_a':
                            v = await req.get_media(default_when_empty=DEFAULT_A)
                        else:
                            v = await req.get_media(default_when_empty=DEFAULT_B)
                        rec = {'call': call, 'ok': True, 'value': v}
                    except Exception as ex:
                        rec = {'call': call, 'ok': False, 'exc': ex, 'cls': type(ex).__name__,
                               'status': getattr(ex, 'status', None)}
                        first_err = first_err or ex
                    rec['stream_delta'] = counter() - before
                    out.append(rec)
                resp.text = 'done'
                if propagate and first_err is not None:
                    raise first_err
    else:
        class Doc(object):
            def on_get(self, req, resp):
                resp.content_type = ctype
                if prerender == 1:
                    resp.media = {'earlier': 'value'}
                    resp.render_body()
                    resp.media = doc
                elif prerender == 2 and isinstance(doc, (dict, list)):
                    m = copy.copy(doc)
                    if isinstance(m, dict):
                        m['__tmp__'] = 1
                    else:
                        m.append('__tmp__')
                    resp.media = m
                    resp.render_body()
                    if isinstance(m, dict):
                        del m['__tmp__']
                    else:
                        m.pop()
                    resp.media = resp.media
                else:
                    resp.media = doc

        class Echo(object):
            def on_post(self, req, resp):
                first_err = None
                for call in hist:
                    before = counter()
                    try:
                        if call == 'get':
                            v = req.get_media()
                        elif call == 'media':
                            v = req.media
                        elif call == 'default_a':
                            v = req.get_media(default_when_empty=DEFAULT_A)
                        else:
                            v = req.get_media(default_when_empty=DEFAULT_B)
                        rec = {'call': call, 'ok': True, 'value': v}
                    except Exception as ex:
                        rec = {'call': call, 'ok': False, 'exc': ex, 'cls': type(ex).__name__,
                               'status': getattr(ex, 'status', None)}
                        first_err = first_err or ex
                    rec['stream_delta'] = counter() - before
                    out.append(rec)
                resp.text = 'done'
                if propagate and first_err is not None:
                    raise first_err
    def touch(m):
        # the application owns what it was given: change it in place
        if isinstance(m, dict):
            m['touched-by-the-app'] = True
        elif isinstance(m, list):
            m.append('touched-by-the-app')

    if asgi:
        class Touch(object):
            async def on_post(self, req, resp):
                touch(await req.get_media())
                resp.text = 'touched'
    else:
        class Touch(object):
            def on_post(self, req, resp):
                touch(req.get_media())
                resp.text = 'touched'
    app.add_route('/doc', Doc())
    app.add_route('/echo', Echo())
    app.add_route('/touch', Touch())
    return app


def asgi_request(ctx, app, method, path, headers, events, holder, recv_suspends, predeliver,
                 fail_recv_at=()):
    ch = ctx.ch
    env = _Env()
    loop = SimLoop(ch, env, max_steps=4000)
    sim = _Sim(loop, ch, ctx)
    scope = http_scope(method=method, path=path, headers=headers)
    conn = Conn(sim, 'http', scope, events, HttpMonitor(), recv_suspends=recv_suspends, lost_mode='drop')
    conn.fail_recv_at = frozenset(fail_recv_at)
    env.conn = conn
    holder['conn'] = conn
    if predeliver:
        while conn.script:
            conn.deliver()
    result = {}

    async def driver():
        try:
            await app(scope, conn.receive, conn.send)
        except Exception as ex:
            result['exc'] = ex

    finished = False
    try:
        task = loop.run_main(driver())
        finished = task.done()
    except SimBudgetExceeded:
        pass
    ctx.steps += loop.steps
    sig = loop.sig()
    try:
        loop.drain()
    finally:
        loop.close()
    return conn, finished, result.get('exc'), sig


def run(ctx):
    ch = ctx.ch
    PARSE_CALLS.clear()
    asgi = bool(ch.draw(2, 'asgi'))
    ctx.probe('asgi' if asgi else 'wsgi')
    kind = 'form' if ch.draw(4, 'kind') == 3 else 'json'
    if kind == 'json':
        doc = gen_json(ch)
        null_doc = doc is None
        if null_doc:
            # a top-level null cannot be sent through resp.media (None means "no media"), but it is a
            # JSON document a client may post: half of these runs post the literal body `null`
            null_doc = bool(ch.draw(2, 'post_null'))
            if not null_doc:
                doc = [None]
        ctype = ch.choice(['application/json', 'application/json; charset=utf-8', 'application/vnd.api+json',
                           'application/json; foo=bar', 'application/json; charset=ISO-8859-1'], 'ctype')
        ctx.probe('json_doc')
        if '+json' in ctype:
            ctx.probe('plus_json')
    else:
        doc = gen_form(ch)
        null_doc = False
        ctype = ch.choice(['application/x-www-form-urlencoded',
                           'application/x-www-form-urlencoded; charset=utf-8'], 'ctype')
        ctx.probe('form_doc')
    n_hist = 1 + ch.draw(5, 'n_hist')
    hist = [ch.choice(['get', 'get', 'media', 'default_a', 'default_b'], 'call') for _ in range(n_hist)]
    propagate = bool(ch.draw(2, 'propagate'))
    recv_suspends = bool(ch.draw(2, 'recv_suspends'))
    predeliver = ch.draw(3, 'predeliver') == 0
    n_cuts = ch.draw(4, 'n_cuts')
    cut_draws = [ch.draw(1000, 'cut') for _ in range(n_cuts)]
    prerender = [0, 0, 1, 2][ch.draw(4, 'prerender')]
    custom_resp = ch.draw(3, 'custom_response_type') == 2
    handler_variant = [None, None, None, 'bytes_dumps', 'counting'][ch.draw(5, 'handler_variant')]
    omit_cl = ch.draw(4, 'omit_content_length') == 3      # ASGI only: chunked upload without Content-Length
    # an earlier request on the same app posts the same (intact) bytes and changes its media in place
    pre_touch = ch.draw(4, 'earlier_request_same_body') == 3
    short_reads = False     # a single read() is what the handlers do; buffered wsgi.input returns it all

    # ---- step 1: serialize through the real response path ---------------------------
    out1 = []
    app1 = make_app(asgi, kind, ctype, doc, [], out1, lambda: 0, False, prerender, custom_resp, handler_variant)
    holder = {}
    if asgi:
        conn, fin, exc, _s = asgi_request(ctx, app1, 'GET', '/doc', [], [{'type': 'http.request'}], holder,
                                          False, True)
        status1, body1 = conn.monitor.status, conn.monitor.body
        ct1 = [v.decode() for n, v in (conn.monitor.headers or []) if n == b'content-type']
    else:
        ex = WsgiExchange(ctx)
        envd = make_environ(method='GET', path='/doc')
        if ex.call(app1, envd):
            ex.consume()
        status1, body1, exc = ex.status_code, ex.body, ex.app_exc
        ct1 = ex.header_values('content-type')
    if null_doc:
        ctx.probe('null_document')
        status1, body1, exc, ct1 = 200, b'null', None, [ctype]
    if exc is not None or status1 != 200:
        ctx.violate('media.serialize', 'serializing %r failed: status %r exc %r' % (doc, status1, exc), kind=kind)
        return
    if kind == 'json':
        try:
            ok1 = same(json.loads(body1.decode('utf-8')), doc)
        except ValueError:
            ok1 = False
        if not ok1:
            ctx.violate('media.roundtrip', 'resp.media = %r was serialized to %r, which does not decode to the '
                        'document (custom response type: %s, prerender: %s)' % (doc, body1[:100], custom_resp,
                                                                               prerender),
                        faulty=False, kind=kind, stack='asgi' if asgi else 'wsgi', what='serialized')
            return
    if not ct1 or ct1[0] != ctype:
        ctx.violate('media.serialize', 'content type %r became %r' % (ctype, ct1), kind=kind, what='content_type')

    # ---- fault sweep -------------------------------------------------------------------
    ctx.draw_fault_site(limit=63)
    fault = None
    if ctx.opportunity('empty_body'):
        fault = ('empty',)
    n = len(body1)
    if n and kind == 'json':
        if ctx.opportunity('wrong_encoding_utf16'):
            fault = ('utf16',)
        if ctx.opportunity('wrong_encoding_bom'):
            fault = ('bom',)
        if ctx.opportunity('wrong_encoding_surrogate'):
            fault = ('surrogate',)
        if ctx.opportunity('undecodable_huge_int_literal'):
            fault = ('hugeint',)
    if n >= 2 and ctx.opportunity('io_error_while_reading'):
        fault = ('ioerror',)
    positions = sorted(set([0, 1, n // 3, n // 2, (2 * n) // 3, n - 1]) & set(range(0, max(n, 1))))
    for p in positions:
        if n and ctx.opportunity('truncate'):
            fault = ('truncate', p)
    for p in positions:
        if n and ctx.opportunity('corrupt_invalid_utf8'):
            fault = ('utf8', p)
        if n and ctx.opportunity('corrupt_delete_byte'):
            fault = ('delete', p)
        if n and ctx.opportunity('corrupt_structural_byte'):
            fault = ('struct', p)

    body2 = body1
    declared = len(body1)
    if fault:
        if fault[0] == 'empty':
            body2, declared = b'', 0
            ctx.probe('empty_body')
        elif fault[0] == 'truncate':
            body2 = body1[:fault[1]]      # declared length stays: fewer bytes arrive
            ctx.probe('truncated')
        elif fault[0] == 'utf16':
            body2 = body1.decode('utf-8').encode('utf-16')
            declared = len(body2)
            ctx.probe('corrupted')
        elif fault[0] == 'bom':
            body2 = b'\xef\xbb\xbf' + body1
            declared = len(body2)
            ctx.probe('corrupted')
        elif fault[0] == 'surrogate':
            # a UTF-8-encoded lone surrogate inside a JSON string: not valid UTF-8
            body2 = b'["' + b'\xed\xa0\x80' + b'", ' + body1 + b']'
            declared = len(body2)
            ctx.probe('corrupted')
        elif fault[0] == 'hugeint':
            # well-formed JSON that the decoder refuses (CPython limits int literals to 4300 digits)
            body2 = b'[' + b'7' * 4400 + b', ' + body1 + b']'
            declared = len(body2)
            ctx.probe('corrupted')
        elif fault[0] == 'ioerror':
            ctx.probe('io_error')
        else:
            p = fault[1]
            if fault[0] == 'utf8':
                body2 = body1[:p] + b'\xff' + body1[p:]
            elif fault[0] == 'delete':
                body2 = body1[:p] + body1[p + 1:]
            else:
                body2 = body1[:p] + (b'}' if kind == 'json' else b'%') + body1[p:]
            declared = len(body2)
            ctx.probe('corrupted')
    if body1 == b'' and fault is None:
        ctx.probe('empty_body')
    ctx.plan = {'stack': 'asgi' if asgi else 'wsgi', 'kind': kind, 'ctype': ctype, 'doc': doc, 'history': hist,
                'fault': list(fault) if fault else None, 'body': body1.decode('utf-8', 'replace')[:200],
                'propagate': propagate, 'cuts': n_cuts, 'short_reads': short_reads,
                'prerender': prerender, 'custom_response_type': custom_resp,
                'handler_variant': handler_variant, 'omit_content_length': omit_cl and asgi,
                'earlier_request_same_body': pre_touch}
    ctx.plan_key = json.dumps(ctx.plan, sort_keys=True, default=repr)

    # ---- step 2: send the bytes back ------------------------------------------------------
    out = []
    holder = {}
    if asgi:
        def counter():
            c = holder.get('conn')
            return c.recv_calls if c else 0
        app2 = make_app(True, kind, ctype, doc, hist, out, counter, propagate, handler_variant=handler_variant)
        if pre_touch and body1:
            ctx.probe('earlier_request_same_body')
            asgi_request(ctx, app2, 'POST', '/touch', [('Content-Type', ctype), ('Content-Length', str(len(body1)))],
                         [{'type': 'http.request', 'body': body1, 'more_body': False}], {}, False, True)
            PARSE_CALLS.get(id(app2), []).clear()
        cuts = sorted(set(c % (len(body2) + 1) for c in cut_draws))
        if fault is not None and fault[0] == 'ioerror':
            cuts = sorted(set(cuts + [len(body2) // 2])) or [1]
        parts = [body2[a:b] for a, b in zip([0] + cuts, cuts + [len(body2)])]
        if len([p for p in parts if p]) >= 2:
            ctx.probe('asgi_multi_chunk')
        truncated = fault is not None and fault[0] == 'truncate'
        events = [{'type': 'http.request', 'body': p, 'more_body': truncated or i < len(parts) - 1}
                  for i, p in enumerate(parts)]
        if truncated:
            events.append({'type': 'http.disconnect'})
        hdrs = [('Content-Type', ctype)]
        if not (omit_cl and fault is None):
            hdrs.append(('Content-Length', str(declared)))
        conn, fin, exc, sig = asgi_request(ctx, app2, 'POST', '/echo', hdrs, events, holder, recv_suspends,
                                           predeliver, fail_recv_at=(1,) if fault == ('ioerror',) else ())
        status2 = conn.monitor.status
        ctx.sched_key = 'A' + sig
        if not fin:
            ctx.violate('media.hang', 'request did not complete (fault %r)' % (fault,))
            return
        for oid, msg in conn.monitor.violations:
            ctx.violate(oid, msg)
    else:
        inp = SimInput(ctx, body2, b'', short_reads=short_reads, limit=declared)
        if fault == ('ioerror',):
            inp.raise_at_call = 0
        if short_reads:
            ch.enable_fault('wsgi_short_read', 1, 2)

        def counter():
            return len(inp.calls)
        app2 = make_app(False, kind, ctype, doc, hist, out, counter, propagate, handler_variant=handler_variant)
        if pre_touch and body1:
            ctx.probe('earlier_request_same_body')
            ex0 = WsgiExchange(ctx)
            if ex0.call(app2, make_environ(method='POST', path='/touch',
                                           body_input=SimInput(ctx, body1, b'', short_reads=False, limit=len(body1)),
                                           content_length=len(body1), content_type=ctype)):
                ex0.consume()
            PARSE_CALLS.get(id(app2), []).clear()
        envd = make_environ(method='POST', path='/echo', body_input=inp, content_length=declared,
                            content_type=ctype)
        ex = WsgiExchange(ctx)
        try:
            if ex.call(app2, envd):
                ex.consume()
        except SimBudgetExceeded as bex:
            # the application keeps asking a wsgi.input that has nothing more to give
            ctx.violate('media.hang', 'request did not complete: %s (fault %r, %d reads of wsgi.input)' % (
                bex, fault, len(inp.calls)), stack='wsgi')
            return
        status2, exc = ex.status_code, ex.app_exc
        ctx.sched_key = 'W%d' % len(inp.calls)
        ctx.steps += len(inp.calls)
    ctx.sched_key += '|%r' % (fault,)
    if exc is not None:
        ctx.violate('media.escaped', 'exception escaped the app: %r' % (exc,))
        return
    stack = 'asgi' if asgi else 'wsgi'
    if handler_variant == 'counting':
        ctx.probe('parse_attempts_counted')
        n_parse = len(PARSE_CALLS.get(id(app2), ()))
        if n_parse > 1:
            ctx.violate('media.parsed_once', 'the media handler was asked to parse the body %d times during one '
                        'request (access history %r)' % (n_parse, hist), what='handler_calls',
                        stack=stack, kind=kind)
    ctx.ops_done = len(out)
    ctx.nontrivial = len(out) >= 2 or fault is not None
    if len(out) >= 2:
        ctx.probe('repeat_call')
    ctx.event('media', [(r['call'], r['ok'], r.get('cls')) for r in out], status2)

    # ---- what should the first parse give? ----------------------------------------------
    empty = body2 == b''
    faulty = fault is not None and fault[0] != 'empty'
    if fault == ('ioerror',):
        # the server failed while the body was being read: whatever the first access raised must be
        # re-raised by every later access, without touching the stream again
        err0 = None
        for i, r in enumerate(out):
            if r['ok']:
                ctx.violate('media.cached_error', 'media access #%d returned %r although reading the body '
                            'failed with an I/O error' % (i, r['value']), what='io_error', stack=stack)
                return
            if err0 is None:
                err0 = r['exc']
                continue
            if r['exc'] is not err0:
                ctx.violate('media.cached_error', 'after an I/O error while reading the body, access #%d raised '
                            '%s instead of re-raising the original %s' % (i, r['cls'], type(err0).__name__),
                            what='io_error', stack=stack)
                return
            if r['stream_delta'] != 0:
                ctx.violate('media.parsed_once', 'access #%d touched the request stream again after the I/O '
                            'error' % i, what='io_error', stack=stack)
                return
        return
    if kind == 'json':
        if empty:
            first = ('notfound',)
        else:
            try:
                first = ('ok', json.loads(body2.decode('utf-8')))
            except ValueError:
                first = ('malformed',)
    else:
        first = ('form',)
    sig = {'stack': stack, 'kind': kind}
    cached_obj = None
    cached_err = None
    parsed = False
    for i, r in enumerate(out):
        call = r['call']
        # second and later calls must not touch the stream
        if parsed and r['stream_delta'] != 0:
            ctx.violate('media.parsed_once', 'call #%d (%s) touched the request stream again (%d more reads)' % (
                i, call, r['stream_delta']), **sig)
            return
        if first[0] == 'notfound':
            ctx.probe('error_cached') if parsed else None
            if call in ('default_a', 'default_b'):
                want = DEFAULT_A if call == 'default_a' else DEFAULT_B
                ctx.probe('default_used')
                if not r['ok'] or r['value'] is not want:
                    ctx.violate('media.empty', 'empty body with default_when_empty: got %r' % (
                        r.get('value', r.get('cls')),), call=call, **sig)
                    return
            else:
                if r['ok'] or r['cls'] != 'MediaNotFoundError':
                    ctx.violate('media.empty', 'empty JSON body: expected MediaNotFoundError, got %r' % (
                        r.get('value', r.get('cls')),), call=call, **sig)
                    return
                if cached_err is not None and r['exc'] is not cached_err:
                    ctx.violate('media.cached_error', 'a later call raised a different error instance', **sig)
                    return
                cached_err = r['exc']
        elif first[0] == 'malformed':
            if r['ok']:
                ctx.violate('media.malformed_class', 'undecodable body %r parsed to %r' % (body2[:60], r['value']),
                            fault=fault[0] if fault else None, **sig)
                return
            st = r['status']
            code = falcon.http_status_to_code(st) if st is not None else None
            if r['cls'] != 'MediaMalformedError' or code != 400:
                ctx.violate('media.malformed_class', 'undecodable body raised %s (status %r), expected the '
                            '400-class MediaMalformedError' % (r['cls'], st), fault=fault[0] if fault else None,
                            **sig)
                return
            if cached_err is not None and r['exc'] is not cached_err:
                ctx.violate('media.cached_error', 'a later call raised a different error instance', **sig)
                return
            if cached_err is not None:
                ctx.probe('error_cached')
            cached_err = r['exc']
        elif first[0] == 'ok':
            if not r['ok']:
                ctx.violate('media.roundtrip', 'valid body %r raised %s' % (body2[:80], r['cls']),
                            faulty=faulty, **sig)
                return
            if not same(r['value'], first[1]):
                ctx.violate('media.roundtrip', 'body %r parsed to %r' % (body2[:80], r['value']), faulty=faulty,
                            **sig)
                return
            if not faulty and not same(r['value'], doc):
                ctx.violate('media.roundtrip', 'document %r came back as %r (body %r)' % (
                    doc, r['value'], body1[:120]), faulty=False, **sig)
                return
            if cached_obj is not None and r['value'] is not cached_obj:
                ctx.violate('media.parsed_once', 'a later call returned a different object', **sig)
                return
            cached_obj = r['value']
        else:   # form
            if faulty:
                # corrupted/truncated form bodies: 400-class error or some mapping, never anything else
                if not r['ok']:
                    st = r['status']
                    code = falcon.http_status_to_code(st) if st is not None else None
                    if r['cls'] != 'MediaMalformedError' or code != 400:
                        ctx.violate('media.malformed_class', 'corrupted form raised %s' % r['cls'],
                                    fault=fault[0], **sig)
                        return
                    if cached_err is not None and r['exc'] is not cached_err:
                        ctx.violate('media.cached_error', 'a later call raised a different error instance', **sig)
                        return
                    cached_err = r['exc']
                else:
                    if cached_obj is not None and r['value'] is not cached_obj:
                        ctx.violate('media.parsed_once', 'a later call returned a different object', **sig)
                        return
                    cached_obj = r['value']
            else:
                want = {} if empty else doc
                if not r['ok'] or not same(r['value'], want):
                    ctx.violate('media.roundtrip', 'form %r came back as %r (body %r)' % (
                        want, r.get('value', r.get('cls')), body1[:120]), faulty=False, **sig)
                    return
                if cached_obj is not None and r['value'] is not cached_obj:
                    ctx.violate('media.parsed_once', 'a later call returned a different object', **sig)
                    return
                cached_obj = r['value']
        parsed = True
    # unhandled error reaches the client as 400
    errs = [r for r in out if not r['ok']]
    if asgi and fault is not None and fault[0] == 'truncate':
        pass      # the client is gone: whatever is sent is dropped by the server
    elif propagate and errs:
        if status2 != 400:
            ctx.violate('media.malformed_class', 'propagated %s produced status %r' % (errs[0]['cls'], status2),
                        what='response_status', **sig)
    elif status2 != 200:
        ctx.violate('media.response', 'status %r' % (status2,), **sig)
