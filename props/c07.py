"""C07 -- request body streams deliver exactly the declared body: no loss, no
over-read (DESIGN section 4, C07). WSGI: req.bounded_stream over a fake
wsgi.input; ASGI: req.stream over scripted http.request events on the SimLoop."""
import json

import falcon
import falcon.asgi

from detsim.asgi_sim import Conn, HttpMonitor, http_scope
from detsim.simloop import Env, SimBudgetExceeded, SimLoop
from detsim.wsgi_sim import SimInput, WsgiExchange, make_environ

PROPERTY = 'C07'
LEVEL = 'exploration'
RUNS = {'quick': 120000, 'thorough': 4000000}
BATCH = 1000
RULE = ('one run = one body (0..48 bytes incl. newlines) x Content-Length (absent / exact / shorter / '
        'longer) x server behaviour (WSGI: exact or short reads, early EOF, pipelined bytes after the '
        'body; ASGI: arbitrary event chunking incl. empty / oversized chunks, missing body / more_body '
        'keys, an http.disconnect at a chosen position, delivery timing relative to application steps) '
        'x one history of <=8 stream operations executed inside a real responder; non-trivial = >=2 '
        'operations returned and the body needed >=2 server reads/events or a fault fired; distinct = '
        'distinct (plan, schedule) pairs')
COMPONENTS = {
    'real': ['falcon.App/falcon.asgi.App request path', 'falcon.stream.BoundedStream',
             'falcon.asgi.stream.BoundedStream', 'Request.bounded_stream / Request.stream wrapping'],
    'stub': ['wsgi.input (detsim.wsgi_sim.SimInput) with over-read probe', 'ASGI server/client '
             '(detsim.asgi_sim.Conn)', 'event loop scheduler', 'responder executing the history'],
}
EXPECTED_PROBES = ('wsgi_pipelined', 'wsgi_early_eof', 'wsgi_short_reads', 'asgi_disconnect',
                   'asgi_oversized_chunk', 'asgi_missing_keys', 'asgi_empty_chunk', 'cl_absent',
                   'cl_shorter', 'cl_longer', 'eof_reported', 'exhaust_inside_iteration')
ASSUMPTIONS = (
    'end-of-stream is "reported" when eof is true, when a read with size>0 or without size returns '
    "b'', or when iteration stops",
    'ASGI histories do not mix read() and iteration on a partially consumed body (documented restriction)',
    'tell() is compared only on histories without exhaust()/close()',
)

ALPHA = b'ab\nc\n-'


DEEP = [False]


def gen_body(ch):
    top = 120 if DEEP[0] else 48
    n = ch.small(top, 'body_len') if ch.draw(4, 'bl') else ch.draw(top + 1, 'body_len2')
    return ch.bytes_from(ALPHA, n, 'byte')


def gen_cl(ch, n):
    k = ch.weighted([5, 2, 2, 2], 'cl_kind')
    if k == 0:
        return n, 'exact'
    if k == 1:
        return None, 'absent'
    if k == 2:
        return ch.draw(n + 1, 'cl_short') if n else 0, 'shorter'
    return n + 1 + ch.draw(6, 'cl_long'), 'longer'


# ---------------------------------------------------------------------------
# WSGI
# ---------------------------------------------------------------------------
W_OPS = ['read_n', 'read', 'read_m1', 'readline', 'readline_n', 'readlines', 'readlines_h',
         'next', 'iter', 'exhaust', 'eof']


def gen_wsgi_history(ch):
    n = 1 + ch.draw(13 if DEEP[0] else 8, 'n_ops')
    ops = []
    for _ in range(n):
        k = ch.weighted([6, 2, 1, 4, 3, 1, 1, 2, 1, 1, 3], 'op')
        name = W_OPS[k]
        if name in ('read_n', 'readline_n', 'readlines_h'):
            ops.append((name, ch.draw(12, 'size') if name != 'readlines_h' else 1 + ch.draw(12, 'hint')))
        else:
            ops.append((name,))
    return ops


def run_wsgi(ctx):
    ch = ctx.ch
    body = gen_body(ch)
    cl, clk = gen_cl(ch, len(body))
    ctx.probe('cl_' + clk) if clk in ('absent', 'shorter', 'longer') else None
    extra = b''
    if ch.draw(3, 'pipelined') == 2:
        extra = ch.bytes_from(b'XY\nZ', 1 + ch.draw(8, 'extra_len'), 'xbyte')
        ctx.probe('wsgi_pipelined')
    short = ch.draw(4, 'short_reads') == 3
    if short:
        ch.enable_fault('wsgi_short_read', 1, 2)
        ctx.probe('wsgi_short_reads')
    # what the server makes available for THIS request
    if clk == 'longer':
        served = body          # client sent fewer bytes than declared: early EOF
        extra = b''            # nothing can follow an incomplete body
        ctx.probe('wsgi_early_eof')
    else:
        served = body[:cl] if cl is not None else b''
        # bytes beyond the declared length belong to the next request
        extra = (body[cl:] if cl is not None else body) + extra
    avail = served if cl is None else served[:cl]
    hist = gen_wsgi_history(ch)
    ctx.plan = {'stack': 'wsgi', 'body': body.decode(), 'cl': cl, 'cl_kind': clk,
                'extra': extra.decode(), 'short_reads': short, 'history': [list(o) for o in hist]}
    ctx.plan_key = json.dumps(ctx.plan, sort_keys=True)
    inp = SimInput(ctx, served, extra, short_reads=short, limit=cl or 0)
    out = []

    class Res(object):
        def on_post(self, req, resp):
            s = req.bounded_stream
            for op in hist:
                rec = {'op': op, 'ret': None, 'exc': None, 'eof': None}
                out.append(rec)
                try:
                    name = op[0]
                    if name == 'read_n':
                        rec['ret'] = s.read(op[1])
                    elif name == 'read':
                        rec['ret'] = s.read()
                    elif name == 'read_m1':
                        rec['ret'] = s.read(-1)
                    elif name == 'readline':
                        rec['ret'] = s.readline()
                    elif name == 'readline_n':
                        rec['ret'] = s.readline(op[1])
                    elif name == 'readlines':
                        rec['ret'] = b''.join(s.readlines())
                    elif name == 'readlines_h':
                        rec['ret'] = b''.join(s.readlines(op[1]))
                    elif name == 'next':
                        try:
                            rec['ret'] = next(s)
                        except StopIteration:
                            rec['ret'] = b''
                            rec['stop'] = True
                    elif name == 'iter':
                        rec['ret'] = b''.join(line for line in s)
                        rec['stop'] = True
                    elif name == 'exhaust':
                        s.exhaust()
                        rec['ret'] = b''
                    elif name == 'eof':
                        rec['ret'] = b''
                    rec['eof'] = s.eof
                except Exception as ex:   # recorded, judged below (R7)
                    rec['exc'] = '%s: %s' % (type(ex).__name__, ex)
            resp.text = 'ok'

    app = falcon.App()
    app.add_route('/s', Res())
    env = make_environ(method='POST', path='/s', body_input=inp, content_length=cl,
                       content_type='application/octet-stream')
    ex = WsgiExchange(ctx)
    if ex.call(app, env):
        ex.consume()
    sfx = '.shortread' if short else ''
    if ex.app_exc is not None:
        ctx.violate('wsgi.stream.app_raised' + sfx, 'exception escaped: %r' % (ex.app_exc,))
    got = b''
    discarded = 0
    done = 0
    for rec in out:
        name = rec['op'][0]
        if rec['exc']:
            ctx.violate('wsgi.stream.raised' + sfx, 'op %r raised %s' % (rec['op'], rec['exc']), op=name)
            break
        ret = rec['ret']
        if name == 'exhaust':
            # exhaust discards: what it consumed is whatever is left
            discarded = len(avail) - len(got)
            ret = avail[len(got):]
        got += ret
        done += 1
        ctx.event('w', name, len(ret), rec['eof'])
        if not avail.startswith(got):
            ctx.violate('wsgi.stream.prefix' + sfx, 'after %r the returned bytes %r are not a prefix of '
                        'the declared body %r' % (rec['op'], got, avail), op=name)
            break
        if name in ('read_n', 'readline_n') and len(rec['ret']) > rec['op'][1]:
            ctx.violate('wsgi.stream.sized_read' + sfx, '%r returned %d bytes' % (rec['op'], len(rec['ret'])),
                        op=name)
        reported = bool(rec['eof']) or rec.get('stop') or (
            name in ('read', 'read_m1', 'readline', 'readlines') and rec['ret'] == b'') or (
            name in ('read_n', 'readline_n', 'readlines_h') and rec['op'][1] > 0 and rec['ret'] == b'')
        if reported:
            ctx.probe('eof_reported')
            if got != avail:
                ctx.violate('wsgi.stream.complete_at_eof' + sfx, 'end-of-stream reported after %r with %d '
                            'of %d body bytes delivered (got %r, body %r)' % (
                                rec['op'], len(got), len(avail), got, avail), op=name,
                            via='eof' if rec['eof'] else 'empty_or_stop')
                break
    limit = cl or 0
    if inp.overread:
        ctx.violate('wsgi.stream.overread' + sfx, '%d byte(s) beyond Content-Length=%s were taken from '
                    'wsgi.input (calls %r)' % (inp.overread, cl, inp.calls[-4:]), kind='bytes_taken')
    elif inp.unbounded_calls:
        ctx.violate('wsgi.stream.overread' + sfx, 'wsgi.input was asked for an unbounded amount '
                    '(%r): would block or over-read on a real socket' % (
                        [c for c in inp.calls if c[1] is None or c[1] < 0][:2],),
                    kind='unbounded_call', call=[c for c in inp.calls if c[1] is None or c[1] < 0][0][0])
    elif inp.overasked:
        ctx.violate('wsgi.stream.overread' + sfx, 'wsgi.input.%s(%d) at offset %d asks for bytes beyond '
                    'Content-Length=%s' % (inp.overasked + (cl,)), kind='requested')
    ctx.ops_done = done
    ctx.steps = len(inp.calls)
    ctx.sched_key = 'W' + ','.join('%s:%s' % c for c in inp.calls[:40])
    ctx.nontrivial = done >= 2 and (len(inp.calls) >= 2 or bool(ch.fired))


# ---------------------------------------------------------------------------
# ASGI
# ---------------------------------------------------------------------------
A_READ_OPS = ['read_n', 'read', 'readall', 'exhaust', 'close', 'tell', 'eof']
A_ITER_OPS = ['iter_j', 'iter', 'exhaust', 'close', 'tell', 'eof', 'iter_x']


def gen_asgi_history(ch):
    n = 1 + ch.draw(13 if DEEP[0] else 8, 'n_ops')
    mode = ch.draw(3, 'hist_mode')     # 0/1 read-based, 2 iteration-based
    ops = []
    broke = False
    for _ in range(n):
        if mode < 2:
            k = ch.weighted([8, 2, 2, 1, 1, 3, 3], 'op')
            name = A_READ_OPS[k]
            ops.append((name, ch.draw(12, 'size')) if name == 'read_n' else (name,))
        else:
            k = ch.weighted([3, 3, 1, 1, 3, 3, 1], 'op')
            name = A_ITER_OPS[k]
            if broke and name in ('iter_j', 'iter', 'iter_x'):
                name = 'eof'
            if name == 'iter_j':
                ops.append((name, 1 + ch.draw(3, 'j')))
                broke = True
            else:
                ops.append((name,))
                if name in ('iter', 'iter_x'):
                    broke = True
    return ops


def gen_events(ch, body, ctx):
    """Split the body into http.request events with legal shape variations."""
    n = len(body)
    k = 1 + ch.draw(5, 'n_chunks')
    cuts = sorted(ch.draw(n + 1, 'cut') for _ in range(k - 1))
    parts = [body[a:b] for a, b in zip([0] + cuts, cuts + [n])]
    if ch.draw(4, 'empty_chunk') == 3:
        parts.insert(ch.draw(len(parts) + 1, 'empty_at'), b'')
    if ch.draw(5, 'trailing_empty') == 4:
        parts.append(b'')
    evs = []
    for i, p in enumerate(parts):
        ev = {'type': 'http.request', 'body': p, 'more_body': i < len(parts) - 1}
        if p == b'':
            ctx.probe('asgi_empty_chunk')
            if ch.draw(2, 'omit_body'):
                del ev['body']
                ctx.probe('asgi_missing_keys')
        if not ev['more_body'] and ch.draw(2, 'omit_more'):
            del ev['more_body']
            ctx.probe('asgi_missing_keys')
        evs.append(ev)
    return evs


class _Env(Env):
    def __init__(self):
        self.conn = None

    def actions(self):
        return self.conn.actions(3, 3, 3)


class _Sim(object):
    def __init__(self, loop, ch, ctx):
        self.loop, self.chooser, self.ctx = loop, ch, ctx

    def note(self, name):
        self.ctx.probe(name)


def run_asgi(ctx):
    ch = ctx.ch
    body = gen_body(ch)
    cl, clk = gen_cl(ch, len(body))
    if clk in ('absent', 'shorter', 'longer'):
        ctx.probe('cl_' + clk)
    events = gen_events(ch, body, ctx)
    if cl is not None and any(len(e.get('body', b'')) > cl for e in events):
        ctx.probe('asgi_oversized_chunk')
    disc_at = None
    dd = ch.draw(4, 'disconnect')
    if dd == 3:
        disc_at = ch.draw(len(events) + 1, 'disc_at')
        # the client goes away: events from disc_at on never arrive
        events = events[:disc_at] + [{'type': 'http.disconnect'}]
        # every remaining body event must have announced more data
        for e in events[:-1]:
            e['more_body'] = True
        ctx.probe('asgi_disconnect')
    sent = b''.join(e.get('body', b'') for e in events if e['type'] == 'http.request')
    avail = sent if cl is None else sent[:cl]
    if disc_at == 0:
        # nothing ever arrives: the app is not even invoked past the first receive
        pass
    hist = gen_asgi_history(ch)
    recv_suspends = bool(ch.draw(2, 'recv_suspends'))
    hold = ch.draw(3, 'predeliver') == 0
    ctx.plan = {'stack': 'asgi', 'body': body.decode(), 'cl': cl, 'cl_kind': clk,
                'events': [[e['type'].split('.')[-1], e['body'].decode() if 'body' in e else None,
                            e.get('more_body', None)] for e in events],
                'history': [list(o) for o in hist], 'recv_suspends': recv_suspends,
                'predeliver': hold}
    ctx.plan_key = json.dumps(ctx.plan, sort_keys=True)
    out = []
    env = _Env()
    loop = SimLoop(ch, env, max_steps=3000)
    sim = _Sim(loop, ch, ctx)
    hdrs = [('Content-Type', 'application/octet-stream')]
    if cl is not None:
        hdrs.append(('Content-Length', str(cl)))
    scope = http_scope(method='POST', path='/s', headers=hdrs)
    conn = Conn(sim, 'http', scope, events, HttpMonitor(), recv_suspends=recv_suspends,
                lost_mode='drop')
    env.conn = conn
    if hold:
        # everything is already in the server's queue when the app starts
        while conn.script:
            conn.deliver()
    state = {'pulled_final': None}

    class Res(object):
        async def on_post(self, req, resp):
            s = req.stream
            for op in hist:
                rec = {'op': op, 'ret': None, 'exc': None, 'eof': None, 'tell': None}
                out.append(rec)
                try:
                    name = op[0]
                    if name == 'read_n':
                        rec['ret'] = await s.read(op[1])
                    elif name == 'read':
                        rec['ret'] = await s.read()
                    elif name == 'readall':
                        rec['ret'] = await s.readall()
                    elif name == 'iter_j':
                        acc = []
                        j = 0
                        rec['stop'] = True
                        async for chunk in s:
                            acc.append(chunk)
                            j += 1
                            if j >= op[1]:
                                rec['stop'] = False
                                break
                        rec['ret'] = b''.join(acc)
                        rec['chunks'] = [len(c) for c in acc]
                    elif name == 'iter':
                        acc = []
                        async for chunk in s:
                            acc.append(chunk)
                        rec['ret'] = b''.join(acc)
                        rec['stop'] = True
                    elif name == 'iter_x':
                        # inside the loop body the application decides it has seen enough and
                        # drains the rest; the loop itself is left to run on
                        acc, after = [], []
                        async for chunk in s:
                            if not acc:
                                acc.append(chunk)
                                await s.exhaust()
                            else:
                                after.append(chunk)
                                if len(after) > 50:
                                    break
                        rec['ret'] = b''.join(acc)
                        rec['after'] = b''.join(after)
                        rec['stop'] = True
                    elif name == 'exhaust':
                        await s.exhaust()
                        rec['ret'] = b''
                    elif name == 'close':
                        s.close()
                        rec['ret'] = b''
                    else:
                        rec['ret'] = b''
                    rec['eof'] = s.eof
                    rec['tell'] = s.tell()
                    rec['recv_calls'] = conn.recv_calls
                    rec['pulled'] = len(conn.pulled)
                except Exception as ex:   # recorded, judged below (R7)
                    rec['exc'] = '%s: %s' % (type(ex).__name__, ex)
            resp.text = 'ok'

    app = falcon.asgi.App()
    app.add_route('/s', Res())
    result = {}

    async def driver():
        try:
            await app(scope, conn.receive, conn.send)
        except Exception as ex:
            result['exc'] = ex

    finished = False
    try:
        task = loop.run_main(driver())
        finished = task.done()
    except SimBudgetExceeded:
        ctx.violate('asgi.stream.hang', 'step budget exceeded')
    ctx.steps = loop.steps
    ctx.sched_key = 'A' + loop.sig()
    try:
        loop.drain()
    finally:
        loop.close()
    if not finished:
        last = out[-1]['op'] if out else None
        ctx.violate('asgi.stream.disconnect_blocks', 'responder blocked forever in %r (events %r)' % (
            last, ctx.plan['events']), op=last[0] if last else None)
    if 'exc' in result:
        ctx.violate('asgi.stream.app_raised', 'exception escaped: %r' % (result['exc'],))
    got = b''
    done = 0
    tell_ok = True
    closed = False
    for rec in out:
        name = rec['op'][0]
        if rec['exc']:
            if closed and ('closed' in rec['exc']):
                continue      # documented: operations on a closed stream raise
            ctx.violate('asgi.stream.raised', 'op %r raised %s' % (rec['op'], rec['exc']), op=name)
            break
        if rec['ret'] is None:
            break             # op did not complete (blocked)
        ret = rec['ret']
        if name == 'iter_x':
            ctx.probe('exhaust_inside_iteration')
            if rec.get('after'):
                ctx.violate('asgi.stream.prefix', 'the iteration went on yielding %r after exhaust() had '
                            'discarded the rest of the body (events %r)' % (rec['after'][:40], ctx.plan['events']),
                            op=name)
                break
            got += ret
            if not avail.startswith(got):
                ctx.violate('asgi.stream.prefix', 'after %r the returned bytes %r are not a prefix of the '
                            'declared body %r' % (rec['op'], got, avail), op=name)
                break
            tell_ok = False
            ret = avail[len(got):]       # discarded by the exhaust() inside the loop
        if name in ('exhaust', 'close'):
            tell_ok = False
            if name == 'close':
                closed = True
            ret = avail[len(got):]       # discarded remainder
        got += ret
        done += 1
        ctx.event('a', name, len(ret), rec['eof'], rec['tell'])
        if not avail.startswith(got):
            ctx.violate('asgi.stream.prefix', 'after %r the returned bytes %r are not a prefix of the '
                        'declared body %r' % (rec['op'], got, avail), op=name)
            break
        if name == 'read_n' and len(rec['ret']) > rec['op'][1]:
            ctx.violate('asgi.stream.sized_read', 'read(%d) returned %d bytes %r (events %r, CL %r)' % (
                rec['op'][1], len(rec['ret']), rec['ret'], ctx.plan['events'], cl), op=name)
        if tell_ok and rec['tell'] is not None and rec['tell'] != len(got):
            ctx.violate('asgi.stream.tell', 'tell() == %d after %d bytes were returned (op %r, events %r)' % (
                rec['tell'], len(got), rec['op'], ctx.plan['events']), op=name,
                first_event_has_body=bool(events and events[0].get('body')))
            tell_ok = False
        reported = bool(rec['eof']) or rec.get('stop') or (
            name in ('read', 'readall') and rec['ret'] == b'') or (
            name == 'read_n' and rec['op'][1] > 0 and rec['ret'] == b'')
        if reported and not closed:
            ctx.probe('eof_reported')
            if got != avail:
                ctx.violate('asgi.stream.complete_at_eof', 'end-of-stream reported after %r with %d of %d '
                            'body bytes delivered (got %r, available %r)' % (
                                rec['op'], len(got), len(avail), got, avail), op=name,
                            via='eof' if rec['eof'] else 'empty_or_stop')
                break
            if name in ('read_n', 'read', 'readall') and rec['ret'] == b'' and rec['eof'] is False:
                ctx.violate('asgi.stream.eof', 'read returned b"" but eof is False', op=name)
            if rec.get('stop') and rec['eof'] is False:
                ctx.violate('asgi.stream.eof', 'iteration stopped (end of stream) but eof is False '
                            '(events %r)' % (ctx.plan['events'],), op=name)
    # receive() must not be awaited once the body is complete
    final_idx = None
    taken = 0
    for i, ev in enumerate(conn.pulled):
        if ev['type'] == 'http.disconnect':
            final_idx = i
            break
        taken += len(ev.get('body', b''))
        if not ev.get('more_body', False) or (cl is not None and taken >= cl and cl > 0):
            final_idx = i
            break
    if final_idx is not None and len(conn.pulled) > final_idx + 1:
        ctx.violate('asgi.stream.receive_after_end', 'receive() pulled %d event(s) after the body was '
                    'complete' % (len(conn.pulled) - final_idx - 1))
    elif conn.recv_after_disconnect:
        ctx.violate('asgi.stream.receive_after_end', 'receive() awaited %d more time(s) after the stream had '
                    'been handed http.disconnect (would block on a real server)' % conn.recv_after_disconnect,
                    after='disconnect')
    elif final_idx is not None and finished and conn.in_receive:
        ctx.violate('asgi.stream.receive_after_end', 'receive() still awaited after the body was complete')
    for oid, msg in conn.monitor.violations:
        ctx.violate(oid, msg)
    ctx.ops_done = done
    ctx.nontrivial = done >= 2 and (len(conn.pulled) >= 2 or disc_at is not None)


def run(ctx):
    DEEP[0] = ctx.tier == 'thorough'      # deeper bounds in the thorough tier
    if ctx.ch.draw(2, 'stack') == 0:
        run_wsgi(ctx)
    else:
        run_asgi(ctx)
