"""C17 -- WebSocket sessions follow the ASGI state machine and report misuse
and errors (DESIGN section 4, C17)."""
import json

from props import c18
from props.ws_common import WsHarness, gen_cfg, gen_client

PROPERTY = 'C17'
LEVEL = 'exploration'
RUNS = {'quick': 60000, 'thorough': 2000000}
BATCH = 500
RULE = ('one run = app configuration (routed / unrouted / no on_websocket responder, 0-2 WebSocket '
        'middleware components that may raise, custom error handler, error_close_code, ASGI spec '
        '2.0-2.4, max_receive_queue 0..4) x responder script (<=8 ops incl. misuse: ops before accept, '
        'double accept, ops after close, invalid close codes, wrong payload types, raised '
        'HTTPError/HTTPStatus/generic/custom errors) x client script (abandoned handshake, messages, '
        'disconnect codes) x send-failure point x one seeded interleaving; non-trivial = the script '
        'executed >=2 ops or the framework itself had to close the connection, and >=2 environment '
        'actions were interleaved; distinct = distinct (plan, schedule trace) pairs')
COMPONENTS = {
    'real': ['falcon.asgi.App._handle_websocket / error handlers', 'falcon.asgi.ws.WebSocket',
             'falcon.asgi.ws._BufferedReceiver', 'falcon routing + middleware preparation',
             'asyncio.Task/Future/wait (CPython)'],
    'stub': ['event loop scheduler (detsim.SimLoop)', 'ASGI server + client + protocol monitor '
             '(detsim.asgi_sim)', 'responder script interpreter', 'generated middleware and error handlers'],
}
EXPECTED_PROBES = ('abandoned_handshake', 'unrouted', 'no_responder', 'mw_raised', 'script_raised',
                   'op_before_accept', 'op_after_close', 'denied', 'send_failed', 'custom_handler_called',
                   'invalid_close_code', 'wrong_payload_type', 'send_refused', 'second_task_receiving',
                   'close_refused_then_owed')
ASSUMPTIONS = (
    'ready callbacks run FIFO as asyncio guarantees; only environment timing varies',
    'when several error conditions hold at once any of their documented errors is accepted',
    'a second close() is a no-op (the statement lists no error for it)',
)

CLOSE_CODES = [None, 1000, 1001, 3000, 4999, 999, 1004, 1005, 1006, 1015, 1999, 'x', 1011, 3404]
RAISES = [('http_error', 400), ('http_error', 404), ('http_error', 503), ('http_named', 403),
          ('http_status', 200), ('http_status', 404), ('generic',), ('custom',),
          # the responder fails with a disconnect that concerns somebody else's connection (a relay,
          # a broadcast): its own client is still there and is owed the error close
          ('ws_disconnected',)]


def valid_close(code):
    if code is None:
        return True
    if not isinstance(code, int):
        return False
    if code < 1000:
        return False
    if 1015 <= code <= 1999 or 1004 <= code <= 1006:
        return False
    return True


def gen_script(ch, ver, deep=False):
    ops = []
    n = ch.draw(14 if deep else 9, 'n_ops')
    sent = 0
    accepted = False
    for _ in range(n):
        k = ch.weighted([3, 5, 5, 2, 3, 2, 1, 1, 2], 'op')
        if k == 0 or (not accepted and ch.draw(3, 'force_accept') != 0):
            v = ch.weighted([8, 2, 1, 2, 1, 1], 'accept_variant')
            if v == 0:
                ops.append(('accept', None, None))
            elif v == 1:
                ops.append(('accept', 'proto1', None))
            elif v == 2:
                ops.append(('accept', 123, None))
            elif v == 3:
                ops.append(('accept', None, [('X-Custom', 'a'), ('x-b', 'c')]))
            elif v == 4:
                ops.append(('accept', None, [('Sec-WebSocket-Protocol', 'proto1')]))
            else:
                ops.append(('accept', 'proto2', {'x-d': 'e'}))
            accepted = True
        elif k == 1:
            ops.append(('recv', ch.choice(['text', 'data', 'media'], 'rk')))
        elif k == 2:
            sk = ch.weighted([4, 4, 3, 2, 1, 1, 1, 1], 'sk')
            if sk == 0:
                ops.append(('send', 'text', 's%d' % sent))
            elif sk == 1:
                ops.append(('send', 'data', b's%d' % sent))
            elif sk == 2:
                ops.append(('send', 'media', {'s': sent}))
            elif sk == 3:
                ops.append(('send', 'media_bin', {'s': sent}))
            elif sk == 4:
                ops.append(('send', 'text', b'wrong%d' % sent))
            elif sk == 5:
                ops.append(('send', 'data', 'wrong%d' % sent))
            elif sk == 6:
                ops.append(('send', 'data', bytearray(b's%d' % sent)))
            else:
                ops.append(('send', 'data', memoryview(b's%d' % sent)))
            sent += 1
        elif k == 3:
            ops.append(('pause', 1 + ch.draw(4, 'k')))
        elif k == 4:
            code = ch.choice(CLOSE_CODES, 'code')
            reason = ch.choice([None, None, 'bye'], 'reason')
            ops.append(('close', code, reason))
        elif k == 5:
            ops.append(('props',))
        elif k == 8:
            ops.append(('recv_cancel', ch.draw(5, 'j')))
        elif k == 6:
            ops.append(('raise', ch.choice(RAISES, 'raise')))
            break
        else:
            ops.append(('return',))
            break
    return ops


def gen_app_cfg(ch):
    a = {}
    p = ch.weighted([10, 1, 1], 'path')
    a['path'] = ['/ws', '/missing', '/nows'][p]
    nmw = ch.weighted([5, 2, 1], 'n_mw')
    mws = []
    for _ in range(nmw):
        spec = {}
        r = ch.weighted([3, 4, 1], 'mw_req')
        if r == 1:
            spec['request'] = 'ok'
        elif r == 2:
            spec['request'] = ch.choice(RAISES, 'mw_raise')
        r = ch.weighted([3, 4, 1], 'mw_res')
        if r == 1:
            spec['resource'] = 'ok'
        elif r == 2:
            spec['resource'] = ch.choice(RAISES, 'mw_raise')
        mws.append(spec)
    a['middleware'] = mws
    hk = ch.weighted([3, 2, 1], 'custom_handler')
    if hk:
        act = ch.choice(['close:4001', 'close:1000', 'raise_http:409', 'raise_status:201', 'return'],
                        'handler_action')
        a['custom_handler'] = ('ws' if hk == 1 else 'nows', act)
    ec = ch.weighted([6, 1, 1, 1], 'error_close_code')
    if ec:
        a['error_close_code'] = [None, 3011, 4011, 999][ec]
    a['subprotocols'] = ('proto1', 'proto2')
    return a


class H(WsHarness):
    def on_quiescent(self):
        conn = self.conn
        if self.app_returned:
            return False
        if not self.final_injected and not conn.lost:
            self.final_injected = True
            self.ctx.probe('final_disconnect_injected')
            conn.script.append({'type': 'websocket.disconnect', 'code': 1001})
            return True
        self.ctx.violate('ws.hang', 'app blocked with nothing runnable after the client '
                         'disconnected (op %r)' % (self.obs[-1].op[0] if self.obs else None,))
        return False


def exc_close_code(what, app_cfg, ws_visible_handler=True):
    """Close code the framework owes for an exception raised on the ws path."""
    k = what[0]
    if k in ('http_error', 'http_named', 'http_status'):
        return 3000 + what[1]
    if k == 'custom':
        hk = app_cfg.get('custom_handler')
        if hk:
            with_ws, act = hk
            if act.startswith('raise_http:'):
                return 3000 + int(act[11:])
            if act.startswith('raise_status:'):
                return 3000 + int(act[13:])
            if act.startswith('close:') and with_ws == 'ws':
                return int(act[6:])
            # the handler dealt with the error without closing: the framework
            # owes the client a close (normal closure, as for a normal return)
            return 1000
    ec = app_cfg.get('error_close_code', 1011)
    if not valid_close(ec) or ec in app_cfg.get('_server_rejects', ()):
        return 3011       # documented fallback when the server refuses the code
    return ec


def check_session(ctx, h, script, app_cfg, cfg, client):
    conn = h.conn
    mon = h.monitor
    N = cfg['max_queue']
    ver = tuple(int(x) for x in cfg['spec_version'].split('.'))

    for oid, msg in mon.violations:
        ctx.violate(oid, msg)
    if conn.sends_after_disc_pulled and not conn.send_failed:
        where = 'handshake' if client['abandoned'] else 'session'
        ctx.violate('ws.monitor.after_lost', 'the framework sent %r after it had received the '
                    'disconnect event' % (mon.events[-1].get('type') if mon.events else None,),
                    where=where)
    if conn.sends_after_lost:
        ctx.violate('ws.send_after_lost', '%d send attempt(s) after a send had already failed '
                    'with a lost connection' % conn.sends_after_lost)

    # ---- (state, op) -> error model ------------------------------------------
    model_broken = False
    # second-task mode: a background task sits in receive_text() while the responder goes on. The
    # sequential (state, op) model does not order the two tasks, so only the protocol monitors, the
    # hang check, payload integrity and the closing obligation stay in force for such a run.
    bg_mode = any(op[0] == 'recv_bg' for op in script)
    rejected_explicit = False
    if bg_mode:
        ctx.probe('second_task_receiving')
    st = 'H'
    code = None           # close code the application should see once closed
    arrived = [e for e in conn.arrived if e['type'] != 'websocket.connect']
    e = 0
    client_code = conn.disc_code
    for o in ([] if bg_mode else h.obs):
        op = o.op
        kind = op[0]
        got = 'ok' if o.kind == 'ok' else o.exc
        allowed = set()
        flag0 = o.pulled_before and N > 0 and st != 'H'
        flag1 = o.pulled_after and N > 0 and st != 'H'
        fail = o.send_failed_during
        if o.refused_during:
            # the server refused this one event with an error of its own; nothing was delivered and
            # the connection is as it was: the error reaches the caller, the session goes on
            ctx.probe('send_refused')
            if got != 'ServerRefused':
                ctx.violate('ws.op_error', 'op %r: the server refused the event, the application saw %s' % (
                    list(map(c18._j, op)), got), op=kind, got='other', after_invalid_close=False)
                model_broken = True
                break
            continue
        if kind == 'accept':
            if st != 'H' or flag0:
                allowed.add('OperationNotAllowed')
                if st == 'A':
                    ctx.probe('double_accept')
            else:
                bad = False
                if op[1] is not None and not isinstance(op[1], str):
                    allowed.add('ValueError')
                    bad = True
                if op[2]:
                    if ver < (2, 1):
                        allowed.add('OperationNotAllowed')
                        bad = True
                    items = op[2].items() if hasattr(op[2], 'items') else op[2]
                    if any(n.lower() == 'sec-websocket-protocol' for n, _v in items):
                        allowed.add('ValueError')
                        bad = True
                if not bad:
                    allowed.add('ok')
                    if fail:
                        allowed = {'WebSocketDisconnected'}
            if got == 'ok':
                st = 'A'
            elif got == 'WebSocketDisconnected':
                st, code = 'C', o.code
        elif kind == 'send':
            wrong = ((op[1] == 'text' and not isinstance(op[2], str)) or
                     (op[1] == 'data' and not isinstance(op[2], (bytes, bytearray, memoryview))))
            if st == 'H':
                allowed.add('OperationNotAllowed')
                ctx.probe('op_before_accept')
            elif st == 'C':
                allowed.add('WebSocketDisconnected')
                ctx.probe('op_after_close')
            else:
                if wrong:
                    allowed.add('TypeError')
                    ctx.probe('wrong_payload_type')
                    if flag1:
                        allowed.add('WebSocketDisconnected')
                elif flag0:
                    allowed.add('WebSocketDisconnected')
                elif fail:
                    allowed.add('WebSocketDisconnected')
                else:
                    allowed.add('ok')
                    if flag1:
                        allowed.add('WebSocketDisconnected')
            if got == 'WebSocketDisconnected':
                if st == 'C' and not fail and code is not None and o.code != code:
                    ctx.violate('ws.op_error', 'send after close reported code %r, expected %r' % (
                        o.code, code), what='code')
                if st == 'A' and not fail and o.code != client_code and flag1:
                    ctx.violate('ws.op_error', 'send reported disconnect code %r, client sent %r' % (
                        o.code, client_code), what='code')
                if st == 'A':
                    st, code = 'C', o.code
        elif kind in ('recv', 'recv_cancel'):
            if st == 'H':
                allowed.add('OperationNotAllowed')
                ctx.probe('op_before_accept')
            elif st == 'C':
                allowed.add('WebSocketDisconnected')
                ctx.probe('op_after_close')
            else:
                nxt = arrived[e] if e < len(arrived) else None
                if nxt is None:
                    allowed.add('<none>')     # nothing could have been received
                elif nxt['type'] == 'websocket.disconnect':
                    allowed.add('WebSocketDisconnected')
                else:
                    is_text = nxt.get('text') is not None
                    want = op[1] if kind == 'recv' else 'text'
                    if want == 'media' or (want == 'text') == is_text:
                        allowed.add('ok')
                    else:
                        allowed.add('PayloadTypeError')
            cancelled = kind == 'recv_cancel' and o.kind == 'ok' and o.extra == 'cancelled'
            if cancelled:
                # the pending receive was cancelled before anything arrived: nothing consumed
                ctx.probe('recv_cancelled')
                continue
            if got in ('ok', 'PayloadTypeError') and st == 'A':
                e += 1
            if got == 'WebSocketDisconnected':
                if st == 'C' and code is not None and o.code != code and not conn.send_failed:
                    ctx.violate('ws.op_error', 'receive after close reported code %r, expected %r' % (
                        o.code, code), what='code')
                if st == 'A':
                    want_code = nxt.get('code', 1000) if nxt else None
                    if nxt is not None and o.code != want_code:
                        ctx.violate('ws.op_error', 'receive reported disconnect code %r, client '
                                    'sent %r' % (o.code, want_code), what='code')
                    st, code = 'C', o.code
        elif kind == 'close':
            c = op[1]
            if not valid_close(c):
                allowed.add('ValueError')
                ctx.probe('invalid_close_code')
            else:
                allowed.add('ok')
                if c in app_cfg.get('_server_rejects', ()) and st != 'C' and not flag1:
                    allowed = {'Exception'}      # the server refuses this code; the state is unchanged
                if fail:
                    allowed |= {'LostConnection', 'OSError', 'Exception', 'WebSocketDisconnected'}
            if got == 'ok':
                if o.closes_sent:
                    if st == 'H':
                        ctx.probe('denied')
                    if st == 'C':
                        ctx.violate('ws.op_error', 'close() on a closed connection sent another '
                                    'close event', what='second_close')
                    st, code = 'C', (1000 if c is None else c)
                elif st != 'C':
                    if flag1 or conn.lost_mode == 'drop' and o.lost_before:
                        st, code = 'C', client_code
                    elif not fail and not conn.lost:
                        ctx.violate('ws.op_error', 'close() returned without sending a close '
                                    'event on an open connection', what='close_noop')
            elif fail and st != 'C':
                st, code = 'C', None
        elif kind == 'props':
            if got == 'ok':
                un, ready, closed = o.value
                want_un = st == 'H'
                want_closed = st == 'C' or bool(flag0)
                want_ready = st == 'A' and not flag0
                if (un, ready, closed) != (want_un, want_ready, want_closed):
                    ctx.violate('ws.op_error', 'unaccepted/ready/closed = %r, model says %r' % (
                        (un, ready, closed), (want_un, want_ready, want_closed)), what='props')
            allowed.add('ok')
        else:
            allowed.add('ok')
        if '<none>' in allowed:
            continue
        if kind == 'close' and got == 'Exception' and 'Exception' in allowed and not fail:
            # the server refused the application's explicit close before touching the connection
            # (Autobahn/Daphne validate the code first): nothing was delivered, the connection is
            # what it was, and so is the model state - later operations are judged as before
            ctx.probe('explicit_close_rejected')
            rejected_explicit = True
            continue
        if fail:
            # R: once a send has failed on a lost connection only the protocol
            # monitor and ws.send_after_lost remain in force
            if got not in allowed and got not in ('WebSocketDisconnected', 'LostConnection',
                                                  'OSError', 'Exception') \
                    and not (got == 'ok' and conn.lost_mode == 'drop'):
                ctx.violate('ws.op_error', 'op %r with failing send returned %s' % (
                    list(map(c18._j, op)), got), op=kind, got='other')
            break
        if got not in allowed:
            after_bad_close = any(p.op[0] == 'close' and p.exc == 'ValueError' for p in h.obs
                                  if p is not o and p.step <= o.step)
            ctx.violate('ws.op_error', 'op %r in model state %s returned %s (%s), documented: %s' % (
                list(map(c18._j, op)), st, got, o.extra, sorted(allowed)), op=kind,
                after_invalid_close=after_bad_close,
                got=got if got in ('ok', 'AssertionError', 'OperationNotAllowed',
                                   'WebSocketDisconnected', 'TypeError', 'ValueError',
                                   'PayloadTypeError') else 'other')
            model_broken = True
            break

    # payload integrity, both directions
    c18.check_fifo(ctx, h)
    want_sent = []
    for o in h.obs:
        if o.op[0] == 'send' and o.kind == 'ok' and not o.lost_before:
            if o.op[1] == 'text':
                want_sent.append(('text', o.op[2]))
            elif o.op[1] == 'data':
                want_sent.append(('bytes', bytes(o.op[2])))
            elif o.op[1] == 'media':
                want_sent.append(('text', json.dumps(o.op[2])))
            else:
                want_sent.append(('bytes', json.dumps(o.op[2]).encode()))
    got_sent = list(mon.sent_payloads)
    if conn.lost:
        # sends may have been dropped/failed around the loss: monitor must hold a prefix
        ok = got_sent == want_sent[:len(got_sent)] or want_sent == got_sent[:len(want_sent)]
    else:
        ok = got_sent == want_sent
    if not ok:
        def norm(lst):
            return [(k, json.loads(v) if k == 'text' and v[:1] in '{[' else v) for k, v in lst]
        if norm(got_sent) != norm(want_sent) and not conn.lost:
            ctx.violate('ws.payload', 'server saw %r, application sent %r' % (got_sent, want_sent))

    # ---- final obligation + close code model ----------------------------------
    if client['abandoned']:
        ctx.probe('abandoned_handshake')
        return
    weak = bg_mode or rejected_explicit
    if not h.app_returned or (model_broken and not weak):
        return
    if weak:
        # Whatever the two tasks (or a refused explicit close) did to each other: the application
        # has returned, no send ever failed and the client is still connected, so the server must
        # have been given a close event by somebody - the responder, an error handler with
        # error_close_code / the 3011 fallback, or the framework's final close().
        if any(o.exc == 'Exception' and o.op[0] == 'close' for o in h.obs):
            ctx.probe('close_refused_then_owed')
        if not conn.send_failed and not conn.lost and mon.closes < 1:
            ctx.violate('ws.final_close', 'the application returned, the client is still connected '
                        'and the server never saw a close event', why='still_connected')
        return
    if h.app_exc is not None and not conn.send_failed:
        ctx.violate('ws.escaped', 'exception escaped the app callable: %r' % (h.app_exc,))
    if conn.send_failed:
        ctx.probe('send_failed')
        return
    # what ended the session?
    want = None
    reason = None
    pre = None
    for spec in app_cfg['middleware']:
        a = spec.get('request')
        if a and a != 'ok':
            pre = a
            break
    if pre is None:
        if app_cfg['path'] == '/missing':
            pre = ('http_error', 404)
            ctx.probe('unrouted')
        elif app_cfg['path'] == '/nows':
            pre = ('http_error', 405)
            ctx.probe('no_responder')
            for spec in app_cfg['middleware']:
                a = spec.get('resource')
                if a and a != 'ok':
                    pre = a
                    break
        else:
            for spec in app_cfg['middleware']:
                a = spec.get('resource')
                if a and a != 'ok':
                    pre = a
                    break
    if pre is not None:
        ctx.probe('mw_raised')
        want = exc_close_code(pre, app_cfg)
        reason = 'pre:%s' % (pre[0],)
    else:
        last = h.obs[-1] if h.obs else None
        if h.script_exc is not None:
            ctx.probe('script_raised')
            want = exc_close_code(last.op[1], app_cfg)
            reason = 'raise:%s' % last.op[1][0]
        else:
            want = 1000
            reason = 'return'
        if st == 'C':
            # already closed from the application's point of view
            want = None
    if h.handler_calls:
        ctx.probe('custom_handler_called')
    if conn.lost:
        # the client went away; at most one close may have been sent before it was known
        if mon.closes > 1:
            ctx.violate('ws.final_close', '%d close events' % mon.closes)
        return
    if want is None:
        if mon.closes != 1:
            ctx.violate('ws.final_close', 'application closed the session but the server saw %d '
                        'close events' % mon.closes, why=reason)
        return
    if want == 'handler_did_not_close':
        if mon.closes == 0:
            ctx.violate('ws.final_close', 'a custom error handler returned without closing and the '
                        'framework sent no close although the client is still connected',
                        why='custom_handler_no_close')
        return
    if mon.closes != 1:
        ctx.violate('ws.final_close', 'session ended (%s), client connected, server saw %d close '
                    'events' % (reason, mon.closes), why=reason)
    elif mon.close_code != want:
        ctx.violate('ws.close_code', 'session ended (%s): close code %r, expected %r' % (
            reason, mon.close_code, want), why=reason)


def run(ctx):
    ch = ctx.ch
    cfg = gen_cfg(ch)
    cfg['spec_version'] = ch.choice(['2.3', '2.0', '2.1', '2.2', '2.4'], 'spec')
    app_cfg = gen_app_cfg(ch)
    deep = ctx.tier == 'thorough'
    client = gen_client(ch, max_msgs=7 if deep else 4, allow_abandon=True)
    script = gen_script(ch, cfg['spec_version'], deep)
    fm = ch.weighted([6, 3, 1], 'faulty')
    cfg['lost_mode'] = ch.choice(['oserror', 'wsexc', 'drop'], 'lost_mode')
    if fm == 1:
        cfg['fail_send_at'] = [ch.draw(6, 'fail_at')]
    elif fm == 2:
        a = ch.draw(6, 'fail_at')
        cfg['fail_send_at'] = [a, a + 1 + ch.draw(3, 'fail_at2')]
    if fm == 0 and ch.draw(6, 'server_refuses_one_event') == 5:
        cfg['refuse_send_at'] = [ch.draw(5, 'refuse_at')]
    if ch.draw(5, 'server_rejects_1011') == 4:
        cfg['reject_close_codes'] = [1011]     # Autobahn/Daphne refuse the reserved-for-endpoints code
    if cfg['max_queue'] > 0 and ch.draw(6, 'second_task') == 5:
        # a second application task blocks in receive_text() right after the accept while the
        # responder carries on (it issues no receive of its own: concurrent receives are not allowed)
        at = next((i for i, op in enumerate(script) if op[0] == 'accept'), None)
        if at is not None:
            rest = [('pause', 1) if op[0] in ('recv', 'recv_cancel') else op for op in script[at + 1:]]
            script = script[:at + 1] + [('recv_bg', ch.draw(3, 'k'))] + rest
            if ch.draw(2, 'server_rejects_1011b'):
                cfg['reject_close_codes'] = [1011]
    if cfg.get('reject_close_codes'):
        # make the refusal matter: half of the script's explicit closes use the refused code
        script = [('close', 1011, op[2]) if op[0] == 'close' and ch.draw(2, 'close_1011') else op
                  for op in script]
    cfg['max_steps'] = 3000
    ctx.plan = {'cfg': dict(cfg), 'app': {k: (list(v) if isinstance(v, tuple) else v)
                                          for k, v in app_cfg.items()},
                'client': [c18._brief_ev(e) for e in client['events']],
                'script': [[c18._j(x) if not isinstance(x, (bytearray, memoryview)) else
                            'buf:' + bytes(x).decode() for x in op] for op in script]}
    ctx.plan_key = json.dumps(ctx.plan, sort_keys=True, default=repr)
    app_cfg['_server_rejects'] = tuple(cfg.get('reject_close_codes', ()))
    h = H(ctx, cfg, client, script, app_cfg)
    h.execute()
    check_session(ctx, h, script, app_cfg, cfg, client)
    conn = h.conn
    ctx.event('end', h.app_returned, conn.monitor.state, len(conn.pulled), h.consumed,
              conn.send_attempts, conn.monitor.close_code, ctx.sched_key)
    ctx.nontrivial = h.loop.env_steps >= 2 and (len(h.obs) >= 2 or (not h.obs and conn.monitor.closes))
