"""C19 -- concurrent requests do not influence one another, from the very first
request (DESIGN section 4, C19).

Half of the runs race 2-3 threads through one WSGI app under ThreadSim (line
granularity pre-emption in falcon code and the generated finder), the other half
interleave 2-3 tasks through one ASGI app on the SimLoop. Oracle: every
concurrent response and observation record equals the solo run on a fresh,
identical app."""
import asyncio
import http
import io
import json

import falcon
import falcon.asgi
import falcon.routing.compiled as compiled_mod

from detsim import mirror
from detsim.asgi_sim import Conn, HttpMonitor, body_events, http_scope
from detsim.simloop import Env, SimBudgetExceeded, SimLoop
from detsim.threadsim import ThreadSim
from detsim.core import reset_falcon_caches
from detsim.wsgi_sim import FileWrapper, WsgiExchange, make_environ

PROPERTY = 'C19'
LEVEL = 'exploration'
RUNS = {'quick': 20000, 'thorough': 500000}
BATCH = 200
RULE = ('one run = one generated app (3-8 routes with literal/field/int/uuid/path/multi-field '
        'segments, 0-2 context-stamping middleware, echoing responders, error routes) x 2-3 '
        'pairwise different requests x one schedule: WSGI runs race one thread per request '
        '(<=4 seeded pre-emptions at source-line granularity inside falcon and the generated '
        'finder; router cold / compiled by add_route / warmed by a prior request), ASGI runs '
        'interleave one task per request at every receive, send and middleware/responder pause; '
        'non-trivial = >=1 context switch happened between requests; distinct = distinct '
        '(plan, schedule) pairs')
COMPONENTS = {
    'real': ['falcon.App / falcon.asgi.App request pipeline', 'falcon.routing.compiled.CompiledRouter '
             '(lazy compile, generated finder)', 'falcon Request/Response, media handlers, '
             'process-wide lru caches', 'asyncio.Task/Future (CPython)'],
    'stub': ['thread scheduler + router lock (detsim.ThreadSim/SimLock)', 'event loop scheduler',
             'WSGI/ASGI servers and clients', 'generated resources and middleware'],
}
EXPECTED_PROBES = ('threads_cold_router', 'threads_lock_contended', 'threads_switched',
                   'tasks_interleaved', 'error_route', 'post_body')
ASSUMPTIONS = (
    'pre-emption granularity is one source line of pure-Python falcon code',
    'generated apps are order-independent, so "some serial order" reduces to equality with the solo run',
)

TEMPLATES = [
    ('/a', 'echo'), ('/a/b', 'echo'), ('/items/{id}', 'echo'), ('/items/{id}/sub', 'echo'),
    ('/n/{num:int}', 'echo'), ('/u/{uid:uuid}', 'echo'), ('/files/{p:path}', 'echo'),
    ('/x/{a}-{b}', 'echo'), ('/x/{a}/y/{b:int(min=1)}', 'echo'), ('/long/literal/path', 'echo'),
    ('/e/{code:int}', 'error'), ('/ea/{code:int}', 'errorA'), ('/eb/{code:int}', 'errorB'), ('/m/{k}', 'media'), ('/items/{id}/detail/{d}', 'echo'),
    ('/v{ver:int}/r', 'echo'), ('/d/{when:dt("%Y-%m-%d")}', 'echo'), ('/f/{x:float}', 'echo'),
    ('/fl/{x:flaky}', 'echo'), ('/static/{file}', 'static'),
    # one numeric status code under different (equally legal) status lines; one exception
    # hierarchy with multiple inheritance resolved against the shared handler table
    ('/s/{k}', 'status'), ('/em/{k}', 'errmix'),
    # responses without any header of their own, some of them carrying a cookie
    ('/bare/{k}', 'bare'),
    # ASGI: a server-sent-events stream (a plain response on WSGI)
    ('/ev/{k}', 'sse'),
    # a multipart upload (POST) whose parts carry RFC 5987 filenames
    ('/up/{k}', 'upload'),
]

UPLOAD = ('--BOUND\r\nContent-Disposition: form-data; name="f%d"; filename="fallback.txt"; '
          "filename*=UTF-8''na%%C3%%AFve-%d.txt\r\nContent-Type: text/plain\r\n\r\nfile body %d\r\n"
          '--BOUND\r\nContent-Disposition: form-data; name="note"\r\n\r\nplain field\r\n--BOUND--\r\n')


UUIDS = ['11111111-1111-1111-1111-111111111111', '22222222-2222-2222-2222-222222222222',
         '33333333-3333-3333-3333-333333333333']


def path_for(tpl, k):
    """k-th concrete path for a template (k differs per request)."""
    t = tpl
    rep = {
        '{id}': 'id%d' % k, '{num:int}': str(100 + k),
        '{uid:uuid}': UUIDS[k % 3], '{p:path}': 'd%d/f%d.txt' % (k, k), '{a}-{b}': 'l%d-r%d' % (k, k),
        '{a}': 'aa%d' % k, '{b:int(min=1)}': str(5 + k), '{code:int}': str([400, 404, 409][k % 3]),
        '{k}': 'key%d' % k, '{d}': 'det%d' % k, '{ver:int}': str(1 + k),
        '{when:dt("%Y-%m-%d")}': ['2020-01-02', 'not-a-date', '2019-12-31', '2021-13-45'][k % 4],
        '{x:float}': ['1.5', 'nan-ish', '2e3', '-7.25'][k % 4],
        '{x:flaky}': 'fl%d' % k,
        '{file}': ['a.txt', 'b.bin', 'c.dat', 'missing-1.txt', 'missing-2.txt'][k % 5],
    }
    for a, b in rep.items():
        t = t.replace(a, b)
    return t


def gen_plan(ch, deep=False):
    n_routes = 3 + ch.draw(6, 'n_routes')
    idx = list(range(len(TEMPLATES)))
    routes = []
    for _ in range(n_routes):
        i = idx.pop(ch.draw(len(idx), 'route'))
        routes.append(i)
    routes.sort()
    n_mw = ch.draw(3, 'n_mw')
    n_req = 2 + ch.draw(3 if deep else 2, 'n_req')
    reqs = []
    conv_routes = [i for i in routes if ':' in TEMPLATES[i][0]]
    same_route = None
    scenario = ch.draw(8, 'scenario')
    if scenario == 7:
        # three requests on one route whose answers differ only in something the framework could
        # be tempted to memoise per process / per app (status line by code, handler by class)
        kind = ['status', 'errmix', 'bare', 'sse', 'upload'][ch.draw(5, 'memo_kind')]
        ki = [i for i, t in enumerate(TEMPLATES) if t[1] == kind][0]
        if ki not in routes:
            routes.append(ki)
            routes.sort()
        for k in range(3):
            v = ch.draw(3, 'variant')
            up = kind == 'upload'
            u = v % 2           # few distinct uploads: byte-identical part headers across requests
            reqs.append({'route': ki, 'path': path_for(TEMPLATES[ki][0], v), 'method': 'POST' if up else 'GET',
                         'tag': 'tag%d' % k, 'ctype': 'multipart/form-data; boundary=BOUND' if up else None,
                         'accept': ACCEPTS[0], 'query': 'q=%d&who=r%d' % (k, k),
                         'body': (UPLOAD % (u, u, u)) if up else None})
        return {'routes': routes, 'n_mw': n_mw, 'reqs': reqs,
                'independent_mw': bool(ch.draw(2, 'independent_mw')), 'caches_full': False}
    if scenario == 6:
        # three overlapping downloads of static files (some of them the fallback document)
        si = [i for i, t in enumerate(TEMPLATES) if t[1] == 'static'][0]
        if si not in routes:
            routes.append(si)
            routes.sort()
        for k in range(3):
            reqs.append({'route': si, 'path': path_for(TEMPLATES[si][0], ch.draw(5, 'file')), 'method': 'GET',
                         'tag': 'tag%d' % k, 'ctype': None, 'accept': ACCEPTS[0], 'query': '', 'body': None,
                         # conditional requests: older than, equal to, newer than the files' mtime
                         'ims': [None, None, 'Thu, 13 Jul 2017 00:00:00 GMT', 'Fri, 14 Jul 2017 02:40:00 GMT',
                                 'Sat, 15 Jul 2017 00:00:00 GMT'][ch.draw(5, 'if_modified_since')]})
        return {'routes': routes, 'n_mw': n_mw, 'reqs': reqs,
                'independent_mw': bool(ch.draw(2, 'independent_mw')), 'caches_full': False}
    if scenario == 5:
        # three media POSTs mixing JSON and form bodies: content-type resolution is shared state
        mi = [i for i, t in enumerate(TEMPLATES) if t[1] == 'media'][0]
        if mi not in routes:
            routes.append(mi)
            routes.sort()
        for k in range(3):
            form = ch.draw(2, 'form') == 1
            tpl = TEMPLATES[mi][0]
            body = ('req=%d&pad=%s' % (k, 'x' * ch.draw(6, 'pad'))) if form else \
                json.dumps({'req': k, 'pad': 'x' * ch.draw(6, 'pad')})
            reqs.append({'route': mi, 'path': path_for(tpl, k), 'method': 'POST', 'tag': 'tag%d' % k,
                         'ctype': 'application/x-www-form-urlencoded' if form else
                         ['application/json', 'application/json', '*/*; q=0.8', 'text/plain',
                          'application/json; charset=utf-8'][ch.draw(5, 'json_ctype')],
                         'accept': ACCEPTS[0], 'query': 'q=%d&who=r%d' % (k, k), 'body': body})
        return {'routes': routes, 'n_mw': n_mw, 'reqs': reqs,
                'independent_mw': bool(ch.draw(2, 'independent_mw')),
                'caches_full': bool(ch.draw(3, 'caches_full') == 2)}
    if conv_routes and scenario == 4:
        # every request hits one converter-carrying route, with few distinct (possibly
        # malformed, possibly repeated) field values: converters must not remember anything
        same_route = conv_routes[ch.draw(len(conv_routes), 'which_route')]
        if ch.draw(2, 'prefer_value_parsing_converter'):
            # dt / float converters do the most work per call (the likeliest place for a memo)
            want = [i for i, t in enumerate(TEMPLATES) if 'dt(' in t[0] or ':float' in t[0]]
            same_route = want[ch.draw(len(want), 'which_parsing_route')]
            if same_route not in routes:
                routes.append(same_route)
                routes.sort()
        n_req = 3
    for k in range(n_req):
        if same_route is not None:
            tpl, kind = TEMPLATES[same_route]
            v = ch.draw(4, 'variant')
            reqs.append({'route': same_route, 'path': path_for(tpl, v), 'method': 'GET', 'tag': 'tag%d' % k,
                         'accept': ACCEPTS[0], 'query': 'q=%d&who=r%d' % (v, v), 'body': None})
            continue
        if reqs and ch.draw(5, 'repeat_earlier') == 4:
            # the same request again (only its tag differs): history must not matter
            dup = dict(reqs[ch.draw(len(reqs), 'which')])
            dup['tag'] = 'tag%d' % k
            reqs.append(dup)
            continue
        r = routes[ch.draw(len(routes), 'req_route')]
        miss = ch.draw(10, 'miss') == 9
        method = 'POST' if ch.draw(3, 'method') == 2 else 'GET'
        tpl, kind = TEMPLATES[r]
        path = path_for(tpl, ch.draw(4, 'path_variant') if ('dt(' in tpl or 'float' in tpl) else k) \
            if not miss else '/nope/%d' % k
        body = None
        ctype = None
        if method == 'POST':
            if ch.draw(3, 'form_body') == 2:
                ctype = 'application/x-www-form-urlencoded'
                body = ('req=%d&pad=%s' % (k, 'x' * ch.draw(20, 'pad'))).encode()
            else:
                ctype = 'application/json'
                body = json.dumps({'req': k, 'pad': 'x' * ch.draw(20, 'pad')}).encode()
        reqs.append({'route': r, 'path': path, 'method': method, 'tag': 'tag%d' % k, 'ctype': ctype,
                     'accept': ACCEPTS[ch.weighted([4, 2, 2, 1, 1, 1], 'accept')],
                     'query': ('q=%d&who=r%d' % (k * 7, k)) if ch.draw(4, 'no_query') != 3 else '',
                     'body': body.decode() if body else None})
    plan = {'routes': routes, 'n_mw': n_mw, 'reqs': reqs,
            'independent_mw': bool(ch.draw(2, 'independent_mw')),
            'caches_full': bool(ch.draw(3, 'caches_full') == 2)}
    if ch.draw(6, 'flaky_converter_fault') == 5:
        fi = [i for i, t in enumerate(TEMPLATES) if 'flaky' in t[0]][0]
        if fi not in routes:
            routes.append(fi)
            routes.sort()
        plan['flaky_fault'] = True
    return plan


# ---------------------------------------------------------------------------
# generated app (pure function of the plan); `pause` is None for WSGI
# ---------------------------------------------------------------------------
ACCEPTS = [
    'application/json',
    'application/json;profile="urn:example:v2";q=0.1, text/html;q=0.5',
    'text/html;q=0.2, application/json;profile="urn:example:v2";q=0.1',
    'text/html;level="1";q=0.3, application/json',
    'application/xml;q=0.9, text/html;level="1";q=0.3, application/json;q=0.2',
    '*/*;q=0.1, application/json;profile="urn:example:v2";q=0.1',
]


def _observe(req, params, body):
    return {
        'prefers': req.client_prefers(['application/json', 'text/html', 'application/xml']),
        'prefers2': req.client_prefers(['text/html', 'application/json']),
        'accepts_html': req.client_accepts('text/html'),
        'path': req.path, 'method': req.method,
        'params': {k: str(v) for k, v in sorted(params.items())},
        'q': req.get_param('q'), 'who': req.get_param('who'),
        'all_params': sorted((k, str(v)) for k, v in req.params.items()),
        'tag': req.get_header('X-Tag'),
        'ctx': getattr(req.context, 'tag', None), 'ctx2': getattr(req.context, 'tag2', None),
        'body': body, 'uri_template': req.uri_template,
        'accept_json': req.client_accepts_json,
    }


import os as _os
import falcon.routing as _frouting

_STATIC_DIR = None
STATIC_FILES = {'a.txt': b'AAAA-static-file-a-' * 7, 'b.bin': bytes(range(97, 123)) * 5, 'c.dat': b'c' * 40}


def static_dir():
    """A small immutable directory under the mirror (removed with it)."""
    global _STATIC_DIR
    if _STATIC_DIR is None:
        d = _os.path.join(mirror.directory(), '_c19static')
        if not _os.path.isdir(d):
            tmp = d + '.tmp%d' % _os.getpid()
            _os.makedirs(tmp, exist_ok=True)
            for name, data in sorted(STATIC_FILES.items()):
                with open(_os.path.join(tmp, name), 'wb') as f:
                    f.write(data)
                _os.utime(_os.path.join(tmp, name), (1500000000, 1500000000))
            try:
                _os.rename(tmp, d)
            except OSError:
                pass
        _STATIC_DIR = d
    return _STATIC_DIR


class Flaky(_frouting.BaseConverter):
    """A converter whose constructor fails once when the harness says so (injected fault:
    'user callback raises', here during the lazy compilation of the router)."""
    fail_next = False
    failures = 0

    def __init__(self):
        if Flaky.fail_next:
            Flaky.fail_next = False
            Flaky.failures += 1
            raise RuntimeError('converter construction failed (injected)')

    def convert(self, value):
        return value


class ErrA(falcon.HTTPError):
    pass


class ErrB(falcon.HTTPError):
    pass


class AppError(Exception):
    pass


class ThingMissing(AppError, falcon.HTTPNotFound):
    pass


HOT_FUNCS = ('_handle_exception', '_find_error_handler', '_compose_error_response', '_get_responder',
             '_compile_and_find', 'find', '_http_error_handler', '_resolve', 'resolve', 'get_media')
CACHE_FILES = ('util/misc.py', 'util/mediatypes.py', 'media/handlers.py', 'asgi/request.py', 'request.py',
               'media/multipart.py')


def fill_caches(app):
    """A long-running process has its bounded caches at capacity: every miss evicts."""
    for c in range(300, 300 + 70):
        try:
            falcon.code_to_http_status(c)
            falcon.http_status_to_code('%d Filler' % c)
        except Exception:
            pass
    for hs in (app.req_options.media_handlers, app.resp_options.media_handlers):
        for i in range(70):
            try:
                hs._resolve('application/x-filler-%d' % i, 'application/json', raise_not_found=False)
            except Exception:
                pass


def build_app(plan, asgi, record, pause=None):
    mws = []
    if asgi:
        class MW1(object):
            async def process_request(self, req, resp):
                req.context.tag = req.get_header('X-Tag')
                if req.get_header('X-Tag') != 'tag1':
                    req.params['noted_by_mw'] = req.get_header('X-Tag')    # its own request's params
                await pause()

            async def process_response(self, req, resp, resource, ok):
                await pause()
                resp.set_header('X-Echo', str(getattr(req.context, 'tag', None)))

        class MW2(object):
            async def process_resource(self, req, resp, resource, params):
                req.context.tag2 = 'r:' + req.path
                # middleware may add to the params of *its* request (documented); some requests do
                if req.get_header('X-Tag') != 'tag1':
                    params['injected_by'] = req.get_header('X-Tag')
                await pause()

            async def process_response(self, req, resp, resource, ok):
                resp.set_header('X-Ok', '%s:%s' % (ok, getattr(req.context, 'tag2', None)))
    else:
        class MW1(object):
            def process_request(self, req, resp):
                req.context.tag = req.get_header('X-Tag')
                if req.get_header('X-Tag') != 'tag1':
                    req.params['noted_by_mw'] = req.get_header('X-Tag')

            def process_response(self, req, resp, resource, ok):
                resp.set_header('X-Echo', str(getattr(req.context, 'tag', None)))

        class MW2(object):
            def process_resource(self, req, resp, resource, params):
                req.context.tag2 = 'r:' + req.path
                if req.get_header('X-Tag') != 'tag1':
                    params['injected_by'] = req.get_header('X-Tag')

            def process_response(self, req, resp, resource, ok):
                resp.set_header('X-Ok', '%s:%s' % (ok, getattr(req.context, 'tag2', None)))
    if plan['n_mw'] >= 1:
        mws.append(MW1())
    if plan['n_mw'] >= 2:
        mws.append(MW2())
    cls = falcon.asgi.App if asgi else falcon.App
    app = cls(middleware=mws, independent_middleware=plan['independent_mw'])

    if asgi:
        async def handle_a(req, resp, ex, params):
            resp.status = 470
            resp.text = 'handler A: %s %s' % (req.get_header('X-Tag'), ex.description)

        async def handle_b(req, resp, ex, params):
            resp.status = 471
            resp.text = 'handler B: %s %s' % (req.get_header('X-Tag'), ex.description)
    else:
        def handle_a(req, resp, ex, params):
            resp.status = 470
            resp.text = 'handler A: %s %s' % (req.get_header('X-Tag'), ex.description)

        def handle_b(req, resp, ex, params):
            resp.status = 471
            resp.text = 'handler B: %s %s' % (req.get_header('X-Tag'), ex.description)
    app.add_error_handler(ErrA, handle_a)
    app.add_error_handler(ErrB, handle_b)

    def respond(kind, ridx, req, resp, params, body):
        obs = _observe(req, params, body)
        record.setdefault(req.get_header('X-Tag'), []).append(obs)
        if kind in ('errorA', 'errorB'):
            cls_ = ErrA if kind == 'errorA' else ErrB
            raise cls_(params.get('code'), description='tag=%s q=%s' % (obs['tag'], obs['q']))
        if kind == 'error':
            code = params.get('code')
            raise falcon.HTTPError(code, title='E%s' % code,
                                   description='tag=%s q=%s' % (obs['tag'], obs['q']))
        if kind == 'media':
            resp.media = {'route': ridx, 'obs': obs}
            return
        if kind == 'errmix':
            v = sum(ord(c) for c in params.get('k', '')) % 3
            if v == 0:
                raise AppError('tag=%s' % (obs['tag'],))
            raise ThingMissing(description='tag=%s q=%s' % (obs['tag'], obs['q']))
        if kind == 'bare':
            resp.status = 204
            if sum(ord(c) for c in params.get('k', '')) % 2 == 0:
                resp.set_cookie('session', str(obs['tag']), path='/')
            return
        if kind == 'status':
            v = sum(ord(c) for c in params.get('k', '')) % 3
            resp.status = ['422 Validation Failed', 422, http.HTTPStatus(422)][v]
        resp.content_type = 'application/json'
        resp.text = json.dumps({'route': ridx, 'obs': obs}, sort_keys=True)
        resp.set_header('X-Route', str(ridx))
        resp.set_cookie('seen', str(obs['tag']), path='/')
        resp.append_header('X-Trail', str(obs['tag']))

    app.router_options.converters['flaky'] = Flaky
    for ridx in plan['routes']:
        tpl, kind = TEMPLATES[ridx]
        if kind == 'static':
            # names that do not exist are answered with the fallback document
            app.add_static_route('/static', static_dir(), fallback_filename='a.txt')
            continue
        if asgi:
            class Res(object):
                _k, _i = kind, ridx

                async def on_get(self, req, resp, **params):
                    await pause()
                    respond(self._k, self._i, req, resp, params, None)
                    if self._k == 'sse':
                        # overlapping event streams of different lengths: each client gets its own events
                        tag = req.get_header('X-Tag')
                        n = 1 + sum(ord(c) for c in params.get('k', '')) % 3

                        async def emitter():
                            for i in range(n):
                                await pause()
                                yield falcon.asgi.SSEvent(text='%s event %d of %d' % (tag, i, n))
                        resp.text = None
                        resp.sse = emitter()

                async def on_post(self, req, resp, **params):
                    if self._k == 'upload' and (req.content_type or '').startswith('multipart/form-data'):
                        form = await req.get_media()
                        parts = []
                        async for part in form:
                            data = await part.get_data()
                            parts.append([part.name, part.filename,
                                          part.secure_filename if part.filename else None,
                                          part.content_type, data.decode()])
                        await pause()
                        respond(self._k, self._i, req, resp, params, json.dumps(parts))
                    elif self._k == 'media':
                        m = await req.get_media()
                        await pause()
                        respond(self._k, self._i, req, resp, params, json.dumps(m, sort_keys=True))
                    else:
                        if req.get_header('X-Tag') in ('tag1', 'tag2'):
                            # read in small sized pieces: the pending pieces of two requests overlap
                            data = b''
                            while True:
                                piece = await req.stream.read(5)
                                if not piece:
                                    break
                                data += piece
                        else:
                            data = await req.stream.read()
                        await pause()
                        respond(self._k, self._i, req, resp, params, data.decode())
        else:
            class Res(object):
                _k, _i = kind, ridx

                def on_get(self, req, resp, **params):
                    respond(self._k, self._i, req, resp, params, None)

                def on_post(self, req, resp, **params):
                    if self._k == 'upload' and (req.content_type or '').startswith('multipart/form-data'):
                        parts = []
                        for part in req.get_media():
                            data = part.get_data()
                            parts.append([part.name, part.filename,
                                          part.secure_filename if part.filename else None,
                                          part.content_type, data.decode()])
                        respond(self._k, self._i, req, resp, params, json.dumps(parts))
                    elif self._k == 'media':
                        m = req.get_media()
                        respond(self._k, self._i, req, resp, params, json.dumps(m, sort_keys=True))
                    else:
                        data = req.bounded_stream.read()
                        respond(self._k, self._i, req, resp, params, data.decode())
        app.add_route(tpl, Res())
    return app


def norm_headers(pairs):
    out = []
    for n, v in pairs:
        if isinstance(n, bytes):
            n, v = n.decode('latin-1'), v.decode('latin-1')
        out.append((n.lower(), v))
    return sorted(out)


# ---------------------------------------------------------------------------
# WSGI / threads
# ---------------------------------------------------------------------------
def wsgi_request(ctx, app, r):
    body = r['body'].encode() if r['body'] is not None else b''
    env = make_environ(method=r['method'], path=r['path'], query=r['query'],
                       headers=[('X-Tag', r['tag']), ('Accept', r.get('accept', 'application/json'))] + (
                           [('If-Modified-Since', r['ims'])] if r.get('ims') else []),
                       body_input=io.BytesIO(body), content_length=len(body) if r['body'] is not None else None,
                       content_type=(r.get('ctype') or 'application/json') if r['body'] is not None else None,
                       file_wrapper=FileWrapper if r.get('fw') else None)
    ex = WsgiExchange(ctx)
    if ex.call(app, env):
        ex.consume()
    if ex.app_exc is not None:
        return ('EXC', repr(ex.app_exc))
    return (ex.status, norm_headers(ex.headers or []), ex.body, tuple(ex.violations))


def run_threads(ctx, plan):
    ch = ctx.ch
    prefixes = (mirror.directory() + '/falcon/',)
    variant = ch.weighted([5, 2, 2], 'router_variant')   # 0 cold, 1 compile=True, 2 warm-up
    reqs = plan['reqs']
    if ch.draw(2, 'wsgi_file_wrapper'):
        # the server offers wsgi.file_wrapper, bound to each request (mod_wsgi style)
        for r in reqs:
            r['fw'] = True

    def fresh(sim, record):
        compiled_mod.Lock = sim.make_lock
        # every lock the application under test creates while it is built is under simulator
        # control: a blocked acquirer yields the baton, "everybody blocked" is reported as a deadlock
        _threading.Lock = sim.make_lock
        try:
            app = build_app(plan, False, record)
            if plan.get('caches_full'):
                fill_caches(app)
            if variant == 1:
                class _R(object):
                    def on_get(self, req, resp):
                        resp.text = 'zz'
                app.add_route('/zz/compiled', _R(), compile=True)
            elif variant == 2:
                wsgi_request(ctx, app, {'method': 'GET', 'path': '/warm', 'query': '', 'tag': 'warm',
                                        'body': None})
        finally:
            compiled_mod.Lock = _REAL_LOCK
            _threading.Lock = _REAL_LOCK
        return app

    # solo baselines, each on a fresh identical app and fresh process-wide caches;
    # they also record where each request's thread goes (for choosing pre-emptions)
    base = []
    solo_locs = []
    for r in reqs:
        rec = {}
        reset_falcon_caches()
        sim = ThreadSim(ch, prefixes, record=True)
        app = fresh(sim, rec)
        res, errs = sim.run([lambda r=r, app=app: wsgi_request(ctx, app, r)])
        if errs[0] is not None:
            ctx.violate('conc.threads.exception', 'solo request failed: %r' % (errs[0],), phase='solo')
            return
        solo_locs.append(sim.locs)
        base.append((res[0], rec.get(r['tag'])))

    # location-based pre-emption triggers: "thread t, k-th time at file:line",
    # drawn from t's solo trace with weights favouring lock boundaries and the router
    d = ch.weighted([1, 3, 3, 2, 2, 1, 1] if ctx.tier == 'thorough' else [1, 3, 3, 2, 2], 'n_preempt')
    triggers = {}
    chosen = []
    for _ in range(d):
        t = ch.draw(len(reqs), 'preempt_thread')
        locs = solo_locs[t]
        if not locs:
            continue
        # 0 lock boundary, 1 router, 2 anywhere, 3 hot functions, 4 cache modules, 5 field converters
        zone = ch.weighted([3, 4, 3, 3, 3, 2], 'preempt_zone')
        if zone == 0:
            cand = [i for i, x in enumerate(locs) if x[0] == '<lock>']
        elif zone == 1:
            cand = [i for i, x in enumerate(locs) if x[0] == '<string>' or x[0].endswith('routing/compiled.py')]
        elif zone == 3:
            cand = [i for i, x in enumerate(locs) if x[2] in HOT_FUNCS]
        elif zone == 4:
            cand = [i for i, x in enumerate(locs) if x[0].endswith(CACHE_FILES)]
        elif zone == 5:
            cand = [i for i, x in enumerate(locs) if x[0].endswith('routing/converters.py')]
        else:
            cand = None
        if cand:
            idx = cand[ch.draw(len(cand), 'preempt_at')]
        else:
            idx = ch.draw(len(locs), 'preempt_at')
        f, line = locs[idx][0], locs[idx][1]
        occ = 1 + sum(1 for x in locs[:idx] if x[0] == f and x[1] == line)
        triggers.setdefault((t, f, line), set()).add(occ)
        chosen.append((t, f.rsplit('/', 1)[-1], line, occ))
    total_events = sum(len(x) for x in solo_locs)
    rec = {}
    reset_falcon_caches()
    sim = ThreadSim(ch, prefixes, triggers=triggers, max_events=20000 + total_events * 4)
    app = fresh(sim, rec)
    Flaky.failures = 0
    Flaky.fail_next = bool(plan.get('flaky_fault'))
    try:
        res, errs = sim.run([lambda r=r: wsgi_request(ctx, app, r) for r in reqs])
    finally:
        Flaky.fail_next = False
    fault_fired = Flaky.failures > 0
    if fault_fired:
        ctx.ch.note_fired('converter_ctor_raises')
    excused = [0]
    pts = chosen
    ctx.steps = sim.events
    ctx.sched_key = 'T%d:%s' % (variant, sim.trace)
    if variant == 0:
        ctx.probe('threads_cold_router')
    lock = getattr(app._router, '_compile_lock', None)
    if getattr(lock, 'contended', 0):
        ctx.probe('threads_lock_contended')
    if sim.switches:
        ctx.probe('threads_switched', sim.switches)
    ctx.nontrivial = sim.switches + sim.forced_switches > 0
    ctx.event('threads', variant, pts, sim.trace, sim.events)
    if sim.deadlock:
        ctx.violate('conc.threads.deadlock', 'all threads blocked (%s)' % sim.abort_reason)
        return
    if sim.aborting:
        ctx.violate('conc.threads.hang', 'aborted: %s' % sim.abort_reason)
        return
    sites = ','.join('%s:%d' % s for s in sim.switch_sites[:4])
    for i, r in enumerate(reqs):
        if errs[i] is not None:
            ctx.violate('conc.threads.exception', 'request %d (%s %s) failed under schedule %s: %r' % (
                i, r['method'], r['path'], sites, errs[i][1]), kind=type(errs[i][1]).__name__)
            continue
        got = res[i]
        want, want_obs = base[i]
        if got[0] == 'EXC':
            ctx.violate('conc.threads.exception', 'request %d (%s %s): exception escaped the app: %s '
                        '(switches at %s)' % (i, r['method'], r['path'], got[1], sites), kind='escaped')
            continue
        for oid, msg in got[3]:
            ctx.violate(oid, msg)
        if fault_fired and (got[:3] != want[:3] or rec.get(r['tag']) is None) \
                and str(got[0]).startswith('500') and not excused[0]:
            excused[0] = 1      # the one request that hit the injected converter failure may answer 500
            continue
        if got[:3] != want[:3]:
            ctx.violate('conc.threads.response', 'request %d (%s %s) got %r, solo run gives %r '
                        '(switches at %s)' % (i, r['method'], r['path'], got[:3], want[:3], sites))
        elif rec.get(r['tag']) != want_obs:
            ctx.violate('conc.threads.response', 'request %d observed %r, solo %r' % (
                i, rec.get(r['tag']), want_obs), what='observation')
        ctx.ops_done += 1
        ctx.event('resp', i, got[0], len(got[2]))


import threading as _threading  # noqa: E402
_REAL_LOCK = _threading.Lock


class LockNeverReleased(RuntimeError):
    pass


class _TaskLock(object):
    """threading.Lock stand-in for single-threaded (task) runs."""

    def __init__(self):
        self._held = False

    def acquire(self, blocking=True, timeout=-1):
        if self._held:
            if not blocking:
                return False
            raise LockNeverReleased('a threading.Lock of the application is held and can never be released '
                                    '(single thread): a real server would hang here')
        self._held = True
        return True

    def release(self):
        if not self._held:
            raise RuntimeError('release unlocked lock')
        self._held = False

    def locked(self):
        return self._held

    def __enter__(self):
        self.acquire()
        return self

    def __exit__(self, *a):
        self.release()
        return False


# ---------------------------------------------------------------------------
# ASGI / tasks
# ---------------------------------------------------------------------------
class _TaskEnv(Env):
    def __init__(self):
        self.conns = []
        self.paused = []
        self.ch = None

    def actions(self):
        acts = []
        for c in self.conns:
            acts.extend(c.actions(2, 3, 3))
        live = [f for f in self.paused if not f.done()]
        self.paused = live
        if live:
            acts.append(('p', 3, self._resume))
        return acts

    def _resume(self):
        live = self.paused
        i = self.ch.draw(len(live), 'resume') if len(live) > 1 else 0
        f = live.pop(i)
        if not f.done():
            f.set_result(None)


class _SimRef(object):
    def __init__(self, loop, ch, ctx):
        self.loop = loop
        self.chooser = ch
        self.ctx = ctx

    def note(self, name):
        self.ctx.probe(name)


def asgi_exchange(ctx, plan, reqs, concurrent, arm_flaky=False):
    """Run the given requests on one fresh app, one task each. Returns list of
    (status, headers, body, monitor violations) and the observation record."""
    ch = ctx.ch
    env = _TaskEnv()
    env.ch = ch
    loop = SimLoop(ch, env, max_steps=6000)
    sim = _SimRef(loop, ch, ctx)
    record = {}

    async def pause():
        if not concurrent:
            return
        f = loop.create_future()
        env.paused.append(f)
        await f

    # tasks share one thread: a lock of the application that is still held when somebody else asks
    # for it can never be released -- report that instead of hanging the simulator
    _threading.Lock = _TaskLock
    compiled_mod.Lock = _TaskLock
    try:
        app = build_app(plan, True, record, pause)
    finally:
        _threading.Lock = _REAL_LOCK
        compiled_mod.Lock = _REAL_LOCK
    if plan.get('caches_full'):
        fill_caches(app)
    Flaky.fail_next = arm_flaky       # armed only after the routes were added (add_route validates converters)
    conns = []
    for r in reqs:
        hdrs = [('X-Tag', r['tag']), ('Accept', r.get('accept', 'application/json')), ('Host', 'sim')]
        if r.get('ims'):
            hdrs.append(('If-Modified-Since', r['ims']))
        body = r['body'].encode() if r['body'] is not None else None
        if body is not None:
            hdrs += [('Content-Type', r.get('ctype') or 'application/json'), ('Content-Length', str(len(body)))]
            k = ch.draw(3, 'chunks') + 1 if concurrent else 1
            cuts = sorted(set(ch.draw(len(body) + 1, 'cut') for _ in range(k - 1)))
            parts = [body[a:b] for a, b in zip([0] + cuts, cuts + [len(body)])]
            events = body_events(parts)
        else:
            events = body_events([])
        scope = http_scope(method=r['method'], path=r['path'], query=r['query'].encode(), headers=hdrs)
        c = Conn(sim, 'http', scope, events, HttpMonitor(), recv_suspends=concurrent,
                 send_suspends=concurrent, name=r['tag'])
        conns.append(c)
    env.conns = conns
    errors = [None] * len(reqs)

    async def one(i, c):
        try:
            await app(c.scope, c.receive, c.send)
        except asyncio.CancelledError:
            raise
        except Exception as ex:
            errors[i] = ex

    async def main():
        tasks = [asyncio.ensure_future(one(i, c)) for i, c in enumerate(conns)]
        for t in tasks:
            await t

    try:
        task = loop.run_main(main())
        finished = task.done()
    except SimBudgetExceeded:
        finished = False
    steps, sig = loop.steps, loop.sig()
    try:
        loop.drain()
    finally:
        loop.close()
    out = []
    for i, c in enumerate(conns):
        m = c.monitor
        if errors[i] is not None:
            out.append(('EXC', repr(errors[i])))
        else:
            out.append((m.status, norm_headers(m.headers or []), m.body, tuple(m.violations), m.state))
    return out, record, finished, steps, sig


def run_tasks(ctx, plan):
    reqs = plan['reqs']
    base = []
    for r in reqs:
        reset_falcon_caches()
        out, rec, fin, _s, _g = asgi_exchange(ctx, plan, [r], False)
        if not fin or out[0][0] == 'EXC':
            ctx.violate('conc.tasks.exception', 'solo request failed: %r' % (out[0],), phase='solo')
            return
        base.append((out[0], rec.get(r['tag'])))
    reset_falcon_caches()
    Flaky.failures = 0
    try:
        out, rec, fin, steps, sig = asgi_exchange(ctx, plan, reqs, True, arm_flaky=bool(plan.get('flaky_fault')))
    finally:
        Flaky.fail_next = False
    fault_fired = Flaky.failures > 0
    if fault_fired:
        ctx.ch.note_fired('converter_ctor_raises')
    excused = [0]
    ctx.steps = steps
    ctx.sched_key = 'A:' + sig
    ctx.event('tasks', sig)
    # interleaving measure: number of changes of "which connection acted"
    ctx.nontrivial = sig.count('p') + sig.count('r') + sig.count('k') >= 3
    if ctx.nontrivial:
        ctx.probe('tasks_interleaved')
    if not fin:
        ctx.violate('conc.tasks.hang', 'requests did not complete (schedule %s)' % sig[:80])
        return
    for i, r in enumerate(reqs):
        got = out[i]
        want, want_obs = base[i]
        if got[0] == 'EXC':
            ctx.violate('conc.tasks.exception', 'request %d (%s %s): %s' % (i, r['method'], r['path'], got[1]))
            continue
        for oid, msg in got[3]:
            ctx.violate(oid, msg)
        if got[4] != 'done':
            ctx.violate('conc.tasks.response', 'request %d: response not finished (%s)' % (i, got[4]))
        if fault_fired and (got[:3] != want[:3] or rec.get(r['tag']) is None) and got[0] == 500 \
                and not excused[0]:
            excused[0] = 1
            continue
        if got[:3] != want[:3]:
            ctx.violate('conc.tasks.response', 'request %d (%s %s) got %r, solo run gives %r' % (
                i, r['method'], r['path'], got[:3], want[:3]))
        elif rec.get(r['tag']) != want_obs:
            ctx.violate('conc.tasks.response', 'request %d observed %r, solo %r' % (
                i, rec.get(r['tag']), want_obs), what='observation')
        ctx.ops_done += 1
        ctx.event('resp', i, got[0], len(got[2]))


def run(ctx):
    ch = ctx.ch
    mode = ch.draw(2, 'mode')     # 0 threads (WSGI), 1 tasks (ASGI)
    plan = gen_plan(ch, ctx.tier == 'thorough')
    for r in plan['reqs']:
        tpl, kind = TEMPLATES[r['route']]
        if kind.startswith('error'):
            ctx.probe('error_route')
        if r['method'] == 'POST':
            ctx.probe('post_body')
    ctx.plan = {'mode': 'threads' if mode == 0 else 'tasks', 'plan': plan,
                'templates': [TEMPLATES[i][0] for i in plan['routes']]}
    ctx.plan_key = json.dumps(ctx.plan, sort_keys=True)
    if mode == 0:
        run_threads(ctx, plan)
    else:
        run_tasks(ctx, plan)
