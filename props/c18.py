"""C18 -- WebSocket receive buffering is FIFO, bounded, lossless, live, clean
under every schedule (DESIGN section 4, C18)."""
import asyncio
import json

from props.ws_common import WsHarness, gen_cfg, gen_client

PROPERTY = 'C18'
LEVEL = 'exploration'
RUNS = {'quick': 48000, 'thorough': 1500000}
BATCH = 500
RULE = ('one run = one generated responder script (<=10 ops over accept/receive_*/send_*/pause/'
        'receive-in-child-then-cancel/send-in-a-second-task/hand-receiving-to-a-second-task/read-'
        'ready-closed/close) x one client script (<=6 messages, text or binary, unique strings or '
        'repeating JSON objects, optional disconnect) x max_receive_queue in 0..4 x one seeded interleaving of server deliveries, '
        'receive wake-ups and send acks with application steps; non-trivial = the application '
        'completed >=1 receive or send and >=2 environment actions were interleaved; distinct = '
        'distinct (workload plan, schedule trace) pairs')
COMPONENTS = {
    'real': ['falcon.asgi.App', 'falcon.asgi.ws.WebSocket', 'falcon.asgi.ws._BufferedReceiver',
             'asyncio.Task/Future/wait (CPython)'],
    'stub': ['event loop scheduler (detsim.SimLoop)', 'ASGI server + client (detsim.asgi_sim.Conn)',
             'responder script interpreter', 'binary media handler'],
}
EXPECTED_PROBES = ('second_connection', 'queue_full', 'recv_cancelled', 'send_bg', 'recv_bg', 'disconnect_while_full', 'recv_blocked',
                   'final_disconnect_injected', 'pump_in_hand')
ASSUMPTIONS = (
    'ready callbacks run FIFO as asyncio guarantees; only environment timing varies',
    'a server receive() behaves like asyncio.Queue.get(): a cancelled receive loses no event',
    'strict bound (held <= max_receive_queue) is a known finding; the check enforces <= N+1',
)


def gen_script(ch, deep=False):
    ops = []
    if ch.draw(6, 'pre_pause') == 5:
        ops.append(('pause', 1 + ch.draw(3, 'k')))
    ops.append(('accept', None, None))
    n = 1 + ch.draw(15 if deep else 9, 'n_ops')
    sent = 0
    rbg = False
    for _ in range(n):
        k = ch.weighted([5, 3, 3, 2, 1, 1, 2, 1, 1] if not rbg else [0, 3, 3, 0, 2, 1, 2, 1, 0], 'op')
        if k == 8:
            # from here on a second task of the application does the receiving
            ops.append(('recv_bg', ch.draw(4, 'k')))
            rbg = True
        elif k == 7:
            # looking at ws.ready / ws.closed / ws.unaccepted is an application step like any other
            # (and must not change what the next receive returns)
            ops.append(('props',))
        elif k == 0:
            ops.append(('recv', ch.choice(['text', 'text', 'data', 'media'], 'rk')))
        elif k == 1:
            sk = ch.choice(['text', 'data', 'media'], 'sk')
            if sk == 'text':
                ops.append(('send', 'text', 's%d' % sent))
            elif sk == 'data':
                ops.append(('send', 'data', b's%d' % sent))
            else:
                ops.append(('send', 'media', {'s': sent}))
            sent += 1
        elif k == 2:
            ops.append(('pause', 1 + ch.draw(4, 'k')))
        elif k == 3:
            ops.append(('recv_cancel', ch.draw(5, 'j')))
        elif k == 4:
            ops.append(('close', ch.choice([None, 1000, 3000, 4001], 'code')))
            break
        elif k == 6:
            ops.append(('send_bg', 's%d' % sent))
            sent += 1
        else:
            ops.append(('return',))
            break
    return ops


class H(WsHarness):
    first_disc_recv = None
    hang_reported = False

    def step_check(self):
        conn = self.conn
        N = self.cfg['max_queue']
        held = self.held_messages()
        ctx = self.ctx
        if N > 0:
            if held >= N:
                ctx.probe('queue_full')
                if conn.lost and not conn.disconnect_pulled:
                    ctx.probe('disconnect_while_full')
            if held == N + 1:
                ctx.probe('pump_in_hand')
                ctx.violate('ws.bound', 'framework holds %d messages with max_receive_queue=%d '
                            '(pulled %d, application consumed %d)' % (
                                held, N, held + self.consumed, self.consumed),
                            excess=1, mode='buffered')
            elif held > N + 1:
                ctx.violate('ws.bound.hard', 'framework holds %d messages with max_receive_queue=%d' % (
                    held, N), mode='buffered')
            if held >= N + 1 and conn.in_receive > 0:
                ctx.violate('ws.stop_pull', 'receive() outstanding on the server while %d messages '
                            'are held (max_receive_queue=%d)' % (held, N), mode='buffered')
            # pump must be pulling whenever it has room (checked when nothing is runnable)
            if (not self.loop._ready and self.accepted_by_app and not self.closing
                    and not self.script_done and not conn.disconnect_pulled
                    and not conn.send_failed and held < N and conn.in_receive == 0):
                ctx.violate('ws.pump_idle', 'accepted, %d/%d held, nothing runnable, yet no '
                            'receive() outstanding on the server' % (held, N), mode='buffered')
        else:
            if held > 0:
                ctx.violate('ws.bound.hard', 'unbuffered mode holds %d messages' % held,
                            mode='unbuffered')
            if self.accepted_by_app and conn.in_receive > 0 and self.in_recv == 0:
                ctx.violate('ws.stop_pull', 'unbuffered mode pulls from the server outside an '
                            'application receive', mode='unbuffered')
        if conn.sends_after_disc_pulled and not conn.send_failed:
            ctx.violate('ws.disc_prompt', 'a send reached the server after the framework had '
                        'pulled the disconnect event')

    def _pending_others(self):
        cur = asyncio.current_task(self.loop)
        root = getattr(cur, 'sim_root', cur)
        return [t for t in asyncio.all_tasks(self.loop)
                if t is not cur and not t.done() and getattr(t, 'sim_root', None) is root
                and t is not getattr(self, 'bg_task', None)
                and t not in getattr(self, 'rbg_tasks', ())       # the script's own receiver task
                and t not in getattr(self, 'bg_tasks', ())]       # ... and sender tasks

    def close_check(self):
        if self.conn.in_receive:
            self.ctx.violate('ws.cleanup', 'close() returned with a receive() still outstanding '
                             'on the server', where='close')
        if self._pending_others():
            self.ctx.violate('ws.cleanup', 'close() returned with %d task(s) still running' % len(
                self._pending_others()), where='close')

    def cleanup_check(self, where):
        others = self._pending_others()
        if others:
            self.ctx.violate('ws.cleanup', 'app returned with %d task(s) still running' % len(others),
                             where='return')
        if self.conn.in_receive:
            self.ctx.violate('ws.cleanup', 'app returned with a receive() still outstanding',
                             where='return')
        live = [h for h in self.loop._scheduled if not h._cancelled]
        if live:
            self.ctx.violate('ws.cleanup', 'app returned with %d timer(s) pending' % len(live),
                             where='return')

    def on_quiescent(self):
        ctx = self.ctx
        conn = self.conn
        if self.app_returned:
            return False
        N = self.cfg['max_queue']
        if self.in_recv > 0:
            ctx.probe('recv_blocked')
            held = self.held_messages()
            if held > 0:
                ctx.violate('ws.lost_wakeup', 'application blocked in receive while the framework '
                            'holds %d message(s)' % held)
                return False
            if conn.disconnect_pulled:
                ctx.violate('ws.lost_wakeup', 'application blocked in receive although the '
                            'framework has pulled the disconnect event')
                return False
            if conn.queue:
                ctx.violate('ws.pump_idle', 'application blocked in receive, server queue holds %d '
                            'event(s), framework is not pulling' % len(conn.queue),
                            mode='buffered' if N else 'unbuffered')
                return False
            if not self.final_injected and not conn.lost:
                self.final_injected = True
                ctx.probe('final_disconnect_injected')
                conn.script.append({'type': 'websocket.disconnect', 'code': 1001})
                return True
            ctx.violate('ws.lost_wakeup', 'application still blocked in receive after the client '
                        'disconnected and everything was delivered')
            return False
        ctx.violate('ws.hang', 'application blocked outside a receive with nothing runnable '
                    '(op %r)' % (self.obs[-1].op[0] if self.obs else None,))
        return False


def check_fifo(ctx, h):
    msgs = h.client['messages']
    e = 0
    for o in h.obs:
        if o.op[0] not in ('recv', 'recv_cancel'):
            continue
        if o.kind == 'ok':
            if o.op[0] == 'recv_cancel' and o.extra != 'completed':
                continue
            if e >= len(msgs):
                ctx.violate('ws.fifo', 'receive returned %r but the client sent only %d messages' % (
                    o.value, len(msgs)))
                return
            kind, payload = msgs[e]
            want_kind = o.op[1] if o.op[0] == 'recv' else 'text'
            if want_kind == 'text':
                good = kind == 'text' and o.value == payload
            elif want_kind == 'data':
                good = kind == 'bytes' and o.value == payload
            else:
                good = o.value == json.loads(payload)
            if not good:
                ctx.violate('ws.fifo', 'receive #%d returned %r, expected message %r' % (
                    e, o.value, msgs[e]))
                return
            e += 1
        elif o.exc == 'PayloadTypeError':
            if e >= len(msgs):
                ctx.violate('ws.fifo', 'PayloadTypeError without a message to consume')
                return
            kind, _p = msgs[e]
            want_kind = o.op[1] if o.op[0] == 'recv' else 'text'
            if (want_kind == 'text' and kind == 'text') or (want_kind == 'data' and kind == 'bytes') \
                    or want_kind == 'media':
                ctx.violate('ws.fifo', 'PayloadTypeError for a message of the requested kind %r' % (
                    msgs[e],))
                return
            e += 1
    if e != h.consumed:
        ctx.violate('ws.fifo', 'consumption accounting mismatch %d != %d' % (e, h.consumed))


ALLOWED_EXC = {
    'recv': ('PayloadTypeError', 'WebSocketDisconnected'),
    'recv_cancel': ('PayloadTypeError', 'WebSocketDisconnected'),
    'send': ('WebSocketDisconnected',),
    'accept': ('WebSocketDisconnected',),
    'close': (),
    'pause': (),
    'send_bg': (),
    'recv_bg': (),
    'join': (),
    'return': (),
}


def check_op_errors(ctx, h):
    """The C18 scripts are well-formed (accept first, legal payloads, legal
    close codes), so the only documented errors are a payload-type mismatch and
    the disconnect."""
    for o in h.obs:
        if o.kind == 'exc' and o.exc not in ALLOWED_EXC.get(o.op[0], ()):
            if h.conn.send_failed and o.op[0] == 'close' and o.exc == 'WebSocketDisconnected':
                continue   # the close event itself could not be sent: connection lost
            ctx.violate('ws.op_error', '%s raised %s: %s%s' % (
                o.op[0], o.exc, o.extra, ' (in a second task while close() was in progress in the first)'
                if getattr(o, 'while_closing', False) else ''),
                op=o.op[0], exc=o.exc, while_closing=bool(getattr(o, 'while_closing', False)))
            return
    for e in h.loop.errors:
        ctx.violate('ws.task_error', 'background task failed: %s' % e)
        return


def check_order(ctx, h):
    conn = h.conn
    if conn.send_failed:
        return
    fd = h.first_disc_recv
    if fd is not None:
        consumed, code = fd
        before = conn.msgs_before_disc
        if before is not None and consumed != before:
            ctx.violate('ws.disc_order', 'receive reported the disconnect after %d of the %d '
                        'messages that preceded it' % (consumed, before))
        want = conn.disc_code
        if want is not None and code != want:
            ctx.violate('ws.disc_order', 'disconnect code %r reported, client sent %r' % (code, want),
                        what='code')
    # sender: a send that started after the disconnect was pulled must fail
    for o in h.obs:
        if o.op[0] == 'send' and o.pulled_before and not o.closed_before:
            if not (o.kind == 'exc' and o.exc == 'WebSocketDisconnected'):
                ctx.violate('ws.disc_prompt', 'send started after the framework pulled the '
                            'disconnect but returned %s' % o.brief())


def run(ctx):
    ch = ctx.ch
    cfg = gen_cfg(ch)
    deep = ctx.tier == 'thorough'      # deeper bounds in the thorough tier
    client = gen_client(ch, max_msgs=10 if deep else 6)
    script = gen_script(ch, deep)
    if cfg['max_queue'] == 0:
        # unbuffered mode: the application's receive *is* the server's receive; a second task
        # receiving while the first one closes is outside what this check models
        script = [('pause', 1) if op[0] == 'recv_bg' else op for op in script]
    faulty = ch.draw(10, 'faulty') >= 8
    if faulty:
        cfg['fail_send_at'] = [ch.draw(6, 'fail_at')]
        cfg['lost_mode'] = ch.choice(['oserror', 'wsexc', 'drop'], 'lost_mode')
    else:
        cfg['lost_mode'] = ch.choice(['oserror', 'drop', 'wsexc'], 'lost_mode')
    cfg['max_steps'] = 3000
    # does the responder wait for its background senders before it closes, or close under them?
    cfg['close_joins_bg'] = ch.draw(3, 'close_joins_bg') != 2
    ctx.plan = {'cfg': {k: v for k, v in cfg.items()},
                'client': [_brief_ev(e) for e in client['events']],
                'script': [list(map(_j, op)) for op in script]}
    ctx.plan_key = json.dumps(ctx.plan, sort_keys=True, default=repr)
    h = H(ctx, cfg, client, script)
    h.close_joins_bg = cfg['close_joins_bg']
    n_bg = 0
    if ch.draw(4, 'second_connection') == 3:
        # another client talks to the same app at the same time
        n_bg = 1 + ch.draw(4, 'bg_msgs')
        h.setup_background(n_bg)
        ctx.probe('second_connection')
    h.execute()
    conn = h.conn
    for oid, msg in h.monitor.violations:
        ctx.violate(oid, msg)
    if h.app_exc is not None and not conn.send_failed:
        ctx.violate('ws.app_raised', 'exception escaped the app: %r' % (h.app_exc,))
    check_fifo(ctx, h)
    check_order(ctx, h)
    check_op_errors(ctx, h)
    if n_bg:
        for oid, msg in h.bg_monitor.violations:
            ctx.violate(oid, 'second connection: ' + msg, conn='second')
        if h.bg_exc is not None:
            ctx.violate('ws.app_raised', 'second connection: exception escaped: %r' % (h.bg_exc,), conn='second')
        elif h.bg_done and h.bg_got != h.bg_sent:
            ctx.violate('ws.fifo', 'second connection received %r, its client sent %r' % (h.bg_got, h.bg_sent),
                        conn='second')
        elif h.app_returned and not h.bg_done:
            ctx.violate('ws.lost_wakeup', 'second connection never finished (received %r of %r)' % (
                h.bg_got, h.bg_sent), conn='second')
    if not conn.send_failed and h.app_returned and conn.monitor.state != 'closed' and not conn.lost:
        ctx.violate('ws.final_close', 'app returned, client connected, no close sent')
    ctx.event('end', h.app_returned, conn.monitor.state, len(conn.pulled), h.consumed,
              conn.send_attempts, ctx.sched_key)
    envs = h.loop.env_steps
    ctx.nontrivial = envs >= 2 and any(
        o.op[0] in ('recv', 'send', 'recv_cancel') and o.kind is not None for o in h.obs)


def _j(x):
    if isinstance(x, bytes):
        return x.decode('latin-1')
    return x


def _brief_ev(e):
    t = e['type'].split('.')[-1]
    if e.get('text') is not None:
        return t + ':' + e['text']
    if e.get('bytes') is not None:
        return t + ':b' + e['bytes'].decode()
    if 'code' in e:
        return t + ':%s' % e['code']
    return t
