"""C01 -- router: histories of accepted and rejected add_route, lazy compile
(DESIGN section 4, C01; narrowed scope).

One run = one history (<=10 ops) on one `CompiledRouter()`:

    add_route(t) / add_route(t, compile=True) with t valid or engineered to be
    rejected at one of the rejection sites, at the first / a middle / the last
    segment, below existing or below freshly created nodes;  find(p) batches.

Oracles
  router.atomicity.add_decision  the router under test (SUT) and a router that
        was fed only the accepted templates decide the next add_route alike
  router.atomicity.lookup        SUT and a fresh router (accepted templates only,
        built from scratch, never saw a rejected template nor an interleaved
        compile) return the same (resource, params, uri_template) for a probe
  router.model.lookup            models/router_walk.py (written from the statement)
        allows the SUT's answer
  router.find.raised             find() never raises

Rule R3: the model returns the SET of answers the statement allows (sibling
order among multi-field segments, ambiguous splits, empty field values and
re-registration of one template are not settled by the statement; see
models/router_walk.py) and abstains on converter inputs whose meaning is not
beyond dispute.  Probe paths never start with an empty segment (how leading
slashes are stripped is not part of the statement).

Known-defect triggers are generated in 'open' runs only (a `path` converter
rejected below freshly created nodes: 5 runs in 8; quote / backslash in literal
text: 1 of those 5); three runs in eight are 'strict': triggers excluded, every
oracle at full strength.  All verdict signatures carry `mode` plus the cause,
which is established by counterfactual re-execution, never guessed:
  cause    minimal set of rejected add_routes that, replayed alone into a clean
           router, reproduces what the SUT shows ('path_rejected_below_new_nodes'
           / 'rejected_add_route' / 'none' = compile-find interleaving matters)
  trigger  for anomalies a clean router shows too: gone once quote/backslash in
           literal text is replaced by letters ('source_literal' / 'regex_literal')
Only the add_route DECISION (accepted / UnacceptableRouteError / other error)
is compared, not which check refused the template.
"""
import json
import re

from falcon.routing.compiled import CompiledRouter, UnacceptableRouteError
from falcon.routing.converters import BaseConverter, PathConverter

from models.router_walk import LIT, MULTI, SINGLE, Node, Tree, Unspecified, freeze

PROPERTY = 'C01'
LEVEL = 'exploration'
RUNS = {'quick': 60000, 'thorough': 1500000}
BATCH = 400
RULE = ('one run = one history of <=10 operations on one CompiledRouter: add_route(template) / '
        'add_route(template, compile=True) / a batch of find(path); templates are valid (literal, '
        'field, converter field, multi-field, trailing path converter; prefixes shared with earlier '
        'templates) or engineered to be rejected at one of 10 rejection sites x first/middle/last '
        'segment x below existing/fresh nodes; probe paths are built from segment representatives '
        'of all templates seen; a fault = one rejected add_route; non-trivial = >=1 add_route was '
        'rejected and >=1 lookup was compared afterwards; distinct = distinct (operation list, '
        'accept/reject/lookup trace) pairs')
COMPONENTS = {
    'real': ['falcon.routing.compiled.CompiledRouter (add_route, validation, insert/rollback, '
             'lazy compile, code generation + exec, generated finder)',
             'falcon.routing.converters (int, float, uuid, path)'],
    'stub': ['resources (objects with on_get)', 'reference walker models/router_walk.py',
             'workload generator'],
}
EXPECTED_PROBES = ('rej_whitespace', 'rej_bad_name', 'rej_dup_name', 'rej_no_converter',
                   'rej_unknown_converter', 'rej_ctor_raises', 'rej_conflict_simple',
                   'rej_conflict_complex', 'rej_path_not_last', 'rej_path_in_complex',
                   'rej_depth_first', 'rej_depth_middle', 'rej_depth_last', 'rej_below_new_nodes',
                   'rej_below_existing_nodes', 'add_compile_flag', 'lazy_recompile', 'find_hit',
                   'find_miss', 'find_after_reject', 'readd_same_template', 'model_backtracked',
                   'model_multi_outcome', 'path_swallowed_many')
ASSUMPTIONS = (
    'the reference walker is a faithful reading of the C01 statement; where the statement is '
    'silent it allows every reading (set-valued answer)',
    'converter semantics are modelled only for undisputed inputs (ASCII digits, canonical UUIDs, '
    'plain words); on anything else the model oracle abstains',
    'a later add_route deciding differently counts as changed lookup behaviour (the route is then '
    'missing or present)',
    'known-defect triggers (quote/backslash literals, path-converter rejection below new nodes) '
    'are excluded in strict runs (3 in 8), where all oracles are strict',
)

NAMES = 'uvwxyz'
SEPS = ('-', '.', '_', '+')
CONVS = ('int', 'int(2)', 'int(num_digits=3)', 'int(min=10)', 'int(max=50)', 'uuid', 'float',
         'int(min=5, max=45)', 'int(min=0)', 'int(max=0)', 'float(min=0)', 'float(max=0.0)', 'float(min=2, max=7)', 'hex', 'hex(2)', 'hex(num_digits=3)')
LITS = ('a', 'b', 'c', '7', 'a-b', 'x.y', '42', '(z)', '$', '', "it's", 'q\\', 't\\t')
LIT_W = (6, 5, 3, 2, 2, 1, 1, 1, 1, 1)
LIT_W_OPEN = LIT_W + (1, 1, 1)
U1 = '6a2f41a3-c54c-4cd1-9f3e-2d1c7e9b5a01'
VALS = {
    None: ('zz', '7', 'a', '42', 'a-b', 'b'),
    'int': ('7', '42', '123', '007', '5', '-5', 'zz', '10', '50', '45', '\u00b2', '1\u2460'),
    'float': ('1.5', '7', 'zz', '-1.5', '0', '-0.0', '8.25'),
    'uuid': (U1, U1.replace('-', ''), 'zz'),
    'hex': ('ff', '7', 'zz', '1a2', '0f', '42', '123'),
    'path': ('zz',),
}
POOL = ('zz', 'a', '7', 'b', '42', '', 'a-b', 'x.y', '1-2-3', '007', 'v7', 'zz.json', '123', '1.5',
        U1, 'a-7', '7-a', 'c', '(zz)')
SITES = ('path_not_last', 'path_in_complex', 'conflict_simple', 'conflict_complex', 'ctor_raises',
         'whitespace', 'bad_name', 'dup_name', 'no_converter', 'unknown_converter')
SITE_W = (5, 5, 2, 2, 2, 1, 1, 1, 1, 1)
_MSG_SITE = (('whitespace', 'whitespace'), ('valid identifiers', 'bad_name'),
             ('duplicated', 'dup_name'), ('Missing converter', 'no_converter'),
             ('Unknown converter', 'unknown_converter'), ('Cannot instantiate', 'ctor_raises'),
             ('inconsistent or conflicts', 'conflict'), ('consume all the path', 'path_not_last'),
             ('includes other characters', 'path_in_complex'))
_RENAME = re.compile(r'\{([A-Za-z_0-9]+)')


class Res(object):
    __slots__ = ('n',)

    def __init__(self, n):
        self.n = n

    def on_get(self, req, resp, **kw):
        pass

    def __repr__(self):
        return 'R%d' % self.n


class EmptyRes(Res):
    """A resource that is falsy (an empty container-like object): still a resource."""
    __slots__ = ()

    def __len__(self):
        return 0


class SafePath(PathConverter):
    """A path-like (multi-segment) converter that can veto: what an application writes to keep
    '..' or other unwanted remainders away from a catch-all route."""

    def convert(self, value):
        rest = '/'.join(value)
        return None if 'zz' in rest else rest


def _own_int_converter():
    class IntConverter(BaseConverter):
        """An application's own converter that happens to be named like the built-in one."""

        def __init__(self, num_digits=None):
            self._n = num_digits

        def convert(self, value):
            if not re.match(r'[0-9a-f]+$', value) or (self._n is not None and len(value) != self._n):
                return None
            return int(value, 16)
    return IntConverter


HexConverter = _own_int_converter()


def new_router():
    r = CompiledRouter()
    r.options.converters['safepath'] = SafePath
    r.options.converters['hex'] = HexConverter
    return r


class St(object):
    def __init__(self, ctx, mode):
        self.ctx = ctx
        self.mode = mode
        self.sut = new_router()
        self.inc = new_router()   # fed accepted templates only, incrementally
        self.inc_dirty = False
        self.fresh = None             # accepted templates only, rebuilt from scratch
        self.accepted = []            # [(template, resource)]
        self.acc_segs = []            # [[raw segment]]
        self.att_segs = []            # accepted and rejected
        self.rejected = []            # [dict]
        self.tree = Tree()
        self.model_ok = True
        self.nodes = {}               # raw -> Node | None (for representatives)
        self.lits = []
        self.trace = []
        self.compared = 0
        self.needs_compile = True     # SUT's _find is (or should be) the lazy stub
        self.had_compile = False
        self.quotes = False
        self.reported = set()
        self.dead = False

    def node(self, raw):
        n = self.nodes.get(raw, 0)
        if n == 0:
            try:
                n = Node(raw)
            except Exception:
                n = None
            self.nodes[raw] = n
        return n


# ----------------------------------------------------------------- generators
def gen_seg(ch, st, level, last, alt_den=4):
    kind = ch.weighted([6, 3, 2, 3, 1 if last else 0], 'seg_kind')
    name = NAMES[min(level, 5)] + ('2' if ch.draw(alt_den, 'alt_name') == alt_den - 1 else '')
    if kind == 0:
        w = LIT_W_OPEN if st.quotes else LIT_W
        lit = LITS[ch.weighted(w, 'lit')]
        if lit == '' and not last:
            lit = 'a'
        return lit
    if kind == 1:
        return '{%s}' % name
    if kind == 2:
        return '{%s:%s}' % (name, ch.choice(CONVS, 'conv'))
    if kind == 4:
        return '{%s:%s}' % (name, 'safepath' if ch.draw(3, 'vetoing_path_converter') == 2 else 'path')
    shape = ch.draw(10 if st.quotes else 8, 'shape')
    sep = ch.choice(SEPS, 'sep')
    n, b, c = name, name + 'b', name + 'c'
    if shape == 0:
        return '{%s}%s{%s}' % (n, sep, b)
    if shape == 1:
        return 'v{%s}' % n
    if shape == 2:
        return '{%s}.json' % n
    if shape == 3:
        return '{%s:int}%s{%s}' % (n, sep, b)
    if shape == 4:
        return '{%s}%s{%s:int(max=50)}' % (n, sep, b)
    if shape == 5:
        return '{%s}%s{%s}%s{%s}' % (n, sep, b, sep, c)
    if shape == 6:
        return '{%s:int}%s{%s:int}' % (n, sep, b)
    if shape == 7:
        return '({%s})' % n
    if shape == 8:
        return 'n\\d{%s}' % n          # backslash in the literal part of a multi-field segment
    return "it's{%s}" % n


def gen_template(ch, st):
    segs = []
    if st.att_segs and ch.draw(3, 't_base') != 0:
        pool = st.att_segs if (st.mode == 'open' and ch.draw(4, 't_base_any') == 3) else st.acc_segs
        if pool:
            base = pool[ch.draw(len(pool), 't_base_i')]
            segs = list(base[:ch.draw(len(base) + 1, 't_keep')])
    more = ch.weighted([2, 4, 3, 1], 't_more')
    if not segs and more == 0:
        more = 1
    total = min(len(segs) + more, 5)
    for level in range(len(segs), total):
        segs.append(gen_seg(ch, st, level, level == total - 1))
    return segs, None, 0


def _rename(raw):
    return _RENAME.sub(lambda m: '{' + m.group(1) + '9', raw)


def gen_bad(ch, st):
    site = SITES[ch.weighted(SITE_W, 'bad_site')]
    nseg = 1 + ch.draw(4, 'bad_nseg')
    pos = ch.draw(nseg, 'bad_pos')
    prefix_mode = ch.draw(3, 'bad_prefix')      # 0 fresh nodes, 1/2 copy an accepted prefix
    variant = ch.draw(6, 'bad_variant')
    base = []
    if st.acc_segs and (prefix_mode or st.mode == 'strict'):
        base = st.acc_segs[ch.draw(len(st.acc_segs), 'bad_base')]
    if site in ('conflict_simple', 'conflict_complex'):
        want = SINGLE if site == 'conflict_simple' else MULTI
        cands = [(i, lv) for i, sg in enumerate(st.acc_segs) for lv, raw in enumerate(sg)
                 if st.node(raw) is not None and st.node(raw).kind == want]
        if not cands:
            site = SITES[4 + variant]      # nothing to conflict with yet: a validation site
        else:
            i, lv = cands[ch.draw(len(cands), 'bad_conflict_with')]
            base, pos = st.acc_segs[i], lv
            nseg = max(nseg, pos + 1)
            raw = base[lv]
            bad = _rename(raw) if (variant % 2 == 0 or site == 'conflict_complex' or ':' not in raw) \
                else raw.split(':')[0] + '}'
    if site == 'path_not_last' and pos == nseg - 1:
        nseg += 1
    if st.mode == 'strict' and site in ('path_not_last', 'path_in_complex'):
        # trigger of the known rollback defect excluded: nothing new above the failing node
        shift = pos - min(pos, len(base))
        pos -= shift
        nseg -= shift
    n = NAMES[min(pos, 5)]
    if site == 'whitespace':
        bad = ('a b', 'a\tb', '{%s} x' % n, ' ', 'b c', '{%s}- {%sb}' % (n, n))[variant]
    elif site == 'bad_name':
        bad = ('{9%s}' % n, '{}', '{%s-%s}' % (n, n), '{class}', '{%s %s}' % (n, n), 'x{9%s}' % n)[variant]
    elif site == 'no_converter':
        bad = ('{%s:}' % n, 'x{%s:}' % n)[variant % 2]
    elif site == 'unknown_converter':
        bad = ('{%s:nope}' % n, '{%s:Int}' % n, '{%s:nope(1)}-{%sb}' % (n, n))[variant % 3]
    elif site == 'ctor_raises':
        bad = ('{%s:int(num_digits=0)}', '{%s:int(bogus=1)}', '{%s:int(1, 2, 3, 4)}', '{%s:uuid(1)}',
               '{%s:int(,)}', 'v{%s:int(num_digits=-1)}')[variant] % n
    elif site == 'path_not_last':
        bad = '{%s:path}' % n
    elif site == 'path_in_complex':
        bad = ('x{%s:path}' % n, '{%s:path}.{%sb}' % (n, n), '{%s:path}-' % n,
               '{%sb}-{%s:path}' % (n, n), '({%s:path})' % n, '{%s:path}.json' % n)[variant]
    segs = []
    for level in range(pos):
        if level < len(base):
            segs.append(base[level])
        else:
            segs.append(gen_seg(ch, st, level, False, alt_den=2))
    if site == 'dup_name':
        used = [m for raw in segs for m in _RENAME.findall(raw)]
        bad = '{%s}' % used[variant % len(used)] if used else '{%s}-{%s}' % (n, n)
    segs.append(bad)
    for level in range(pos + 1, nseg):
        segs.append(gen_seg(ch, st, level, level == nseg - 1))
    return segs, site, pos


def render(segs):
    if len(segs) > 1 and segs[0] == '':
        segs[0] = 'a'
    return '/' + '/'.join(segs)


def pool_pick(ch, st):
    k = ch.draw(len(POOL) + len(st.lits), 'pool')
    return POOL[k] if k < len(POOL) else st.lits[k - len(POOL)]


def match_rep(ch, st, raw):
    """Path segment(s) intended to match template segment `raw`."""
    node = st.node(raw)
    if node is None:
        return [pool_pick(ch, st)]
    if node.kind == LIT:
        return [raw]
    if node.kind == SINGLE and node.is_path:
        return [pool_pick(ch, st) for _ in range(1 + ch.draw(3, 'path_len'))]
    out = node.lits[0]
    for k, cname in enumerate(node.cnames):
        vals = VALS.get(cname, VALS[None])
        out += vals[ch.draw(len(vals), 'val')] + node.lits[k + 1]
    if node.kind == MULTI:
        junk = ch.draw(12, 'near_miss')     # 10, 11: text before / after the whole pattern
        if junk >= 10:
            out = 'x' + out if junk == 10 else out + 'x'
    return [out]


def gen_path(ch, st):
    segs = []
    if st.att_segs and ch.draw(8, 'p_base') != 7:
        # the newest templates are the most interesting ones
        k = len(st.att_segs)
        i = k - 1 - min(ch.draw(k, 'p_t'), ch.draw(k, 'p_t'))
        for raw in st.att_segs[i]:
            r = ch.draw(8, 'p_seg')
            if r < 6:
                segs.extend(match_rep(ch, st, raw))
            else:
                segs.append(pool_pick(ch, st))
        tail = ch.weighted([8, 2, 3, 2], 'p_tail')
        if tail == 1 and len(segs) > 1:
            segs.pop()
        elif tail == 2:
            segs.append(pool_pick(ch, st))
        elif tail == 3:
            segs.append('')
    else:
        segs = [pool_pick(ch, st) for _ in range(1 + ch.draw(3, 'p_len'))]
    if len(segs) > 1 and segs[0] == '':
        segs[0] = 'zz'          # R3: leading-slash stripping is not in the statement
    return '/' + '/'.join(segs)


# ------------------------------------------------------------------ observation
def site_of(msg):
    for needle, site in _MSG_SITE:
        if needle in msg:
            return site
    return 'other'


def try_add(router, t, res, comp):
    try:
        if comp:
            router.add_route(t, res, compile=True)
        else:
            router.add_route(t, res)
        return ('ok', None)
    except UnacceptableRouteError as ex:
        return ('rejected', site_of(str(ex)))
    except Exception as ex:
        return ('error', type(ex).__name__)


def do_find(router, path):
    """-> None | ('hit', resource, frozen params, template, GET responder) | ('raised', name, text)"""
    try:
        r = router.find(path)
    except Exception as ex:
        return ('raised', type(ex).__name__, str(ex)[:100])
    if r is None:
        return None
    out = ('hit', r[0], freeze(r[2]), r[3], r[1].get('GET'))
    # the params dict belongs to this lookup's caller (App hands it to process_resource middleware,
    # which may add to it): use it, so that a later lookup that sees this one's dict is noticed
    if isinstance(r[2], dict):
        r[2]['added-by-the-caller'] = path
    return out


def brief(r):
    if r is None:
        return 'None'
    if r[0] == 'raised':
        return 'raised %s(%s)' % (r[1], r[2])
    return '%r %s %s' % (r[1], r[3], [(k, v) for k, _t, v in r[2]])


def same(a, b):
    if a is None or b is None:
        return a is b
    if a[0] != b[0]:
        return False
    if a[0] == 'raised':
        return a[1] == b[1]
    return a[1] is b[1] and a[2] == b[2] and a[3] == b[3] and a[4] == b[4]


def build(accepted, rejected=()):
    """Router fed the accepted templates (plain add_route, in order) plus the
    given rejected add_routes at the places where they happened.  -> router, or
    None if one of the accepted templates is refused."""
    r = new_router()
    for i in range(len(accepted) + 1):
        for rj in rejected:
            if rj['at'] == i:
                try_add(r, rj['t'], rj['res'], False)
        if i < len(accepted):
            t, res = accepted[i]
            if try_add(r, t, res, False)[0] != 'ok':
                return None
    return r


PATH_SITES = ('path_not_last', 'path_in_complex')


def history_cause(st, observe, sut_obs, eq):
    """The SUT shows `sut_obs`, a router fed only the accepted templates does
    not.  Find a minimal set of rejected add_routes which, replayed at their
    places into an otherwise clean router (no compile flags, no lookups in
    between), reproduces the SUT's observation.  -> signature fields."""
    def repro(sub):
        r = build(st.accepted, sub)
        return r is not None and eq(observe(r), sut_obs)
    sub = list(st.rejected)
    if not sub or not repro(sub):
        # not a consequence of the rejected add_routes alone: the interleaving
        # of compile / find with add_route matters
        return dict(cause='none', blame='none', depth='-'), ''
    i = 0
    while i < len(sub):
        cand = sub[:i] + sub[i + 1:]
        if repro(cand):
            sub = cand
        else:
            i += 1
    below = all(rj['site'] in PATH_SITES and rj['new_parents'] > 0 for rj in sub)
    return (dict(cause='path_rejected_below_new_nodes' if below else 'rejected_add_route',
                 blame='+'.join(sorted(set(rj['site'] for rj in sub))),
                 depth='+'.join(sorted(set(rj['depth'] for rj in sub)))),
            '; reproduced on a clean router by replaying only the rejected %r' % (
                [rj['t'] for rj in sub],))


def _san(s):
    return s.replace("'", 'Q').replace('\\', 'B')


def _san_lit(t):
    return '/'.join(raw if '{' in raw else _san(raw) for raw in t.split('/'))


def _special(raw):
    return "'" in raw or '\\' in raw


def quoting_trigger(st, path, got, allowed=(), add_exc=None):
    """For an anomaly that a router fed only the accepted templates shows too.

    find raised SyntaxError (or anything, after add_route(compile=True) raised
    SyntaxError and left finder and side tables out of step) and a literal
    segment contains a quote or backslash: if a clean router fed the same
    templates with these characters replaced by letters IN LITERAL SEGMENTS
    ONLY does not raise, the cause is literal text pasted into the generated
    source ('source_literal').

    wrong answer: the templates involved (the one the router chose, the ones
    the model allows) are inspected: quote/backslash in a literal segment ->
    'source_literal', in the literal part of a multi-field segment ->
    'regex_literal'; confirmed by re-running router and model with every quote
    and backslash (templates and path) replaced by letters."""
    if not any(_special(t) for t, _r in st.accepted):
        return 'none'
    if got is not None and got[0] == 'raised':
        if 'SyntaxError' not in (got[1], add_exc) or not any(
                _special(raw) and '{' not in raw for t, _r in st.accepted for raw in Tree.split(t)):
            return 'none'
        clean = build([(_san_lit(t), res) for t, res in st.accepted])
        r = None if clean is None else do_find(clean, _san(path))
        return 'source_literal' if clean is not None and (r is None or r[0] == 'hit') else 'none'
    involved = [got[3]] if got is not None and got[3] else []
    for o in allowed:
        if o is not None:
            involved.extend(t for t, _r in o[0].routes)
    raws = [raw for t in involved for raw in Tree.split(t) if _special(raw)]
    if not raws:
        return 'none'
    pairs = [(_san(t), res) for t, res in st.accepted]
    clean = build(pairs)
    tree = Tree()
    try:
        for t, res in pairs:
            tree.add(t, res)
        r = do_find(clean, _san(path))
        if (r is not None and r[0] == 'raised') or not allowed_by(tree.lookup(_san(path)), r):
            return 'none'
    except Exception:
        return 'none'
    return '+'.join(sorted(set('regex_literal' if '{' in raw else 'source_literal' for raw in raws)))


def allowed_by(allowed, got):
    if got is None:
        return None in allowed
    for o in allowed:
        if o is not None and o[1] == got[2]:
            for t, res in o[0].routes:
                if t == got[3] and res is got[1]:
                    return True
    return False


# ---------------------------------------------------------------------- oracles
def probe_path(st, path):
    """Compare one lookup: SUT vs fresh router vs model."""
    ctx = st.ctx
    if st.fresh is None:
        st.fresh = build(st.accepted)
        if st.fresh is None:
            ctx.violate('router.atomicity.add_decision', 'a router built from scratch rejects one '
                        'of the accepted templates %r' % ([t for t, _ in st.accepted],),
                        mode=st.mode, diff='fresh_rebuild_rejects', cause='none', blame='none',
                        depth='-')
            st.dead = True
            return
    if st.needs_compile:
        if st.had_compile:
            ctx.probe('lazy_recompile')
        st.needs_compile, st.had_compile = False, True
    got = do_find(st.sut, path)
    ref = do_find(st.fresh, path)
    st.compared += 1
    ctx.steps += 1
    st.trace.append('F')
    ctx.event('find', path, brief(got))
    if st.rejected:
        ctx.probe('find_after_reject')
    ctx.probe('find_miss' if got is None else 'find_hit' if got[0] == 'hit' else 'find_raised')
    raised = got is not None and got[0] == 'raised'
    agree = same(got, ref)
    acc = [t for t, _ in st.accepted]
    sig = why = None
    if not agree and not {'raised', 'lookup'} <= st.reported:
        sig, why = history_cause(st, lambda r: do_find(r, path), got, same)
        sig['mode'] = st.mode
    if raised and 'raised' not in st.reported:
        st.reported.add('raised')
        if agree:
            rsig = dict(mode=st.mode, cause='none', blame='none', depth='-',
                        trigger=quoting_trigger(st, path, got))
        else:
            rsig = dict(sig, trigger='-')
        ctx.violate('router.find.raised', 'find(%r) raised %s: %s; accepted templates %r; a router '
                    'fed only these %s%s' % (path, got[1], got[2], acc, 'raises too' if agree else
                                             'does not raise', why or ''),
                    exc=got[1], fresh_router_raises=agree, **rsig)
    if not agree and 'lookup' not in st.reported:
        st.reported.add('lookup')
        ctx.violate('router.atomicity.lookup', 'find(%r): router under test -> %s, fresh router '
                    'fed only the accepted templates %r -> %s; history %s%s' % (
                        path, brief(got), acc, brief(ref), ''.join(st.trace), why),
                    diff=('sut_raises' if raised else 'sut_none' if got is None else
                          'sut_extra' if ref is None else 'differs'), **sig)
    if raised or not st.model_ok:
        return
    try:
        allowed = st.tree.lookup(path)
    except Unspecified:
        ctx.probe('model_abstain')
        return
    if len(allowed) > 1:
        ctx.probe('model_multi_outcome')
    if got is not None:
        if len((got[3] or '').split('/')) < len(path.split('/')):
            ctx.probe('path_swallowed_many')
        if len(st.accepted) > 1 and got[3] != st.first_choice(path):
            ctx.probe('model_backtracked')
    if not allowed_by(allowed, got) and 'model' not in st.reported:
        st.reported.add('model')
        want = sorted(brief(None if o is None else ('hit', o[0].routes[-1][1], o[1], o[0].routes[-1][0]))
                      for o in allowed)
        diff = 'sut_none' if got is None else 'sut_extra' if allowed == {None} else 'wrong_route' \
            if not any(o is not None and any(t == got[3] for t, _ in o[0].routes) for o in allowed) \
            else 'wrong_params'
        ctx.violate('router.model.lookup', 'find(%r) -> %s but the depth-first walk of %r allows '
                    'only %s' % (path, brief(got), acc, want),
                    mode=st.mode, diff=diff, same_as_fresh_router=agree,
                    trigger=quoting_trigger(st, path, got, allowed) if agree else '-')


def _first_choice(st, path):
    """Template a walk WITHOUT backtracking would commit to (probe accounting only)."""
    nodes = st.tree.roots
    segs = path[1:].split('/')
    node = None
    for i, s in enumerate(segs):
        cand = sorted(nodes, key=lambda n: n.kind)
        for node in cand:
            try:
                if node.options(segs, i)[0]:
                    break
            except Unspecified:
                return None
        else:
            return None
        if node.is_path:
            break
        nodes = node.kids
    return node.routes[-1][0] if node is not None and node.routes else None


St.first_choice = _first_choice


def misuse_index(st, raws):
    """Index of the first segment that misuses a path converter (not last, or
    inside a multi-field segment); None if there is none."""
    for i, raw in enumerate(raws):
        if ':path' in raw or ':safepath' in raw:
            n = st.node(raw)
            if i < len(raws) - 1 or n is None or n.kind == MULTI:
                return i
    return None


def do_add(st, ch, segs, intent, pos, index):
    ctx = st.ctx
    if st.mode == 'strict':
        # exclude the trigger of the known rollback defect: a path-converter
        # misuse never sits below nodes this add_route would have to create
        p, pre = misuse_index(st, segs), st.tree.prefix_len(render(segs))
        if p is not None and p > pre:
            segs = segs[:pre] + segs[p:]
            pos = pre
    t = render(segs)
    comp = ch.draw(4, 'compile') == 3
    res = (EmptyRes if ch.draw(5, 'falsy_resource') == 4 else Res)(index)
    raws = Tree.split(t)
    pre = st.tree.prefix_len(t) if st.model_ok else 0
    if st.inc_dirty:
        # the last add_route was refused: whatever it did to `inc` is discarded.
        # A router that saw only accepted templates (and lookups) is as good.
        st.inc, st.fresh = (st.fresh, None) if st.fresh is not None else (build(st.accepted), None)
        st.inc_dirty = False
    out = try_add(st.sut, t, res, comp)
    ref = try_add(st.inc, t, res, comp) if st.inc is not None else out
    st.att_segs.append(raws)
    for raw in raws:
        n = st.node(raw)
        if n is not None and n.kind == LIT and raw not in st.lits and raw not in POOL:
            st.lits.append(raw)
    ctx.steps += 1
    ctx.ops_done += 1
    ctx.event('add', t, comp, out[0], out[1])
    if comp:
        ctx.probe('add_compile_flag')
    kind = 'add_rejected:%s' % (intent or 'valid')
    ch.offered[kind] = ch.offered.get(kind, 0) + 1
    if out[0] != ref[0]:
        # R3: only the decision is compared, not which check refused the template
        st.trace.append('!')
        sig, why = history_cause(st, lambda r: try_add(r, t, Res(-1), comp)[0], out[0],
                                 lambda a, b: a == b)
        ctx.violate('router.atomicity.add_decision', 'add_route(%r%s): router under test -> %s, '
                    'router fed only the accepted templates %r -> %s; history %s%s' % (
                        t, ', compile=True' if comp else '', out, [x for x, _ in st.accepted], ref,
                        ''.join(st.trace), why),
                    mode=st.mode, sut_site=out[1] or '-',
                    diff=('sut_rejects' if out[0] == 'rejected' else 'sut_accepts' if out[0] == 'ok'
                          else 'sut_raises'), **sig)
        st.dead = True
        return
    if out[0] == 'ok':
        st.trace.append('C' if comp else 'A')
        st.needs_compile = not comp
        st.had_compile = st.had_compile or comp
        if raws in st.acc_segs:
            ctx.probe('readd_same_template')
        st.accepted.append((t, res))
        st.acc_segs.append(raws)
        st.fresh = None
        if st.model_ok:
            try:
                st.tree.add(t, res)
            except Exception:
                st.model_ok = False
                ctx.probe('model_cannot_parse')
        return
    st.inc_dirty = True
    if out[0] == 'error':
        # add_route failed with something else than UnacceptableRouteError (both
        # routers alike): the state is not defined by the statement; show what
        # a lookup does, then stop.
        st.trace.append('E')
        ctx.probe('add_internal_error')
        got = do_find(st.sut, '/zz')
        ctx.event('find', '/zz', brief(got))
        if got is not None and got[0] == 'raised':
            st.accepted.append((t, res))      # the template went in before compile failed
            ctx.violate('router.find.raised', 'add_route(%r, compile=%r) raised %s (a router fed '
                        'only the accepted templates does too); then find(%r) raised %s: %s; '
                        'templates %r' % (t, comp, out[1], '/zz', got[1], got[2],
                                          [x for x, _ in st.accepted]),
                        exc=got[1], fresh_router_raises=True, mode=st.mode, cause='none',
                        blame='none', depth='-',
                        trigger=quoting_trigger(st, '/zz', got, add_exc=out[1]))
        st.dead = True
        return
    st.trace.append('R')
    # which check refuses the template is taken from the CLEAN router: the SUT's
    # own message may already be a consequence of an earlier half-inserted branch
    site = ref[1]
    ch.note_fired(kind)
    # position of the offending segment, by the site that actually fired
    if site in PATH_SITES:
        p = misuse_index(st, raws) or 0
        inserted = True
    elif site == 'conflict':
        p = pre
        n = st.node(raws[pre]) if pre < len(raws) else None
        site = 'conflict_complex' if n is not None and n.kind == MULTI else 'conflict_simple'
        inserted = True
    else:
        p = pos if intent == site else 0
        inserted = False
    depth = 'first' if p == 0 else 'last' if p == len(raws) - 1 else 'middle'
    new_parents = max(0, p - pre) if inserted else 0
    ctx.probe('rej_' + site)
    ctx.probe('rej_depth_' + depth)
    if inserted:
        ctx.probe('rej_below_new_nodes' if new_parents else 'rej_below_existing_nodes')
    st.rejected.append(dict(at=len(st.accepted), t=t, res=res, site=site, depth=depth,
                            new_parents=new_parents))


def run(ctx):
    ch = ctx.ch
    m = ch.draw(8, 'mode')          # 0-3 open, 4 open + quote/backslash literals, 5-7 strict
    mode = 'strict' if m >= 5 else 'open'
    eager = ch.draw(2, 'eager_probe')
    n_ops = 1 + ch.draw(10, 'n_ops')
    st = St(ctx, mode)
    st.quotes = m == 4
    plan_ops = []
    for index in range(n_ops):
        k = ch.weighted([5, 3, 4], 'op')
        if k == 1:
            for _ in range(1 + ch.draw(4, 'n_probes')):
                p = gen_path(ch, st)
                plan_ops.append(['find', p])
                probe_path(st, p)
                if st.dead:
                    break
            ctx.ops_done += 1
        else:
            segs, intent, pos = gen_template(ch, st) if k == 0 else gen_bad(ch, st)
            plan_ops.append(['add', render(segs), intent or 'valid'])
            do_add(st, ch, segs, intent, pos, index)
            if eager and not st.dead:
                for _ in range(1 + ch.draw(3, 'n_eager')):
                    p = gen_path(ch, st)
                    plan_ops.append(['find', p])
                    probe_path(st, p)
                    if st.dead:
                        break
        if st.dead:
            break
    if not st.dead:
        for _ in range(3 + ch.draw(4, 'n_final')):
            p = gen_path(ch, st)
            plan_ops.append(['find', p])
            probe_path(st, p)
            if st.dead:
                break
    ctx.plan = {'mode': mode, 'quote_literals': st.quotes, 'eager_probe': eager, 'ops': plan_ops,
                'accepted': [t for t, _ in st.accepted], 'rejected': [
                    [r['t'], r['site'], r['depth'], r['new_parents']] for r in st.rejected]}
    ctx.plan_key = json.dumps(plan_ops)
    ctx.sched_key = ''.join(st.trace)
    ctx.nontrivial = bool(st.rejected) and st.compared > 0
    ctx.event('end', len(st.accepted), len(st.rejected), st.compared, ctx.sched_key)
