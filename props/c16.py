"""C16 -- static routes stay in their directory and serve exact bytes (DESIGN
section 4, C16).

One workload = one static-route configuration (directory, prefix, downloadable,
fallback) on a real falcon.App or falcon.asgi.App over the DiskSim tree x one
request (path from a traversal grammar, Range, If-Modified-Since) x the read
schedule of the consuming server. Its fault sweep re-runs the workload with one
injected fault at every fault opportunity (open / fstat / seek / read error,
abandon or send failure at chunk j).

Reference ("which file does a path name?") -- rule R3, weakest reading: a
request path names a file when *lexical* resolution of the part after the
prefix (POSIX normpath semantics: '.', '..', repeated '/' collapse) relative to
the configured directory, or -- for a remainder that starts with '/' -- as an
absolute path, denotes a regular file inside the configured directory. Only
then may anything but 404 (or the configured fallback file) be answered. The
route is free to refuse (404) any spelling that is not the plain relative path
of a file; a plain relative path of an existing file must be served. The
stricter reading ("a remainder containing a backslash, a doubled separator, a
control/reserved character, surrounding blanks, a trailing period or more than
512 characters is never served") is NOT asserted; it is counted by the probe
`hostile_spelling_served` and only becomes a verdict with VERIF_C16_STRICT=1
(used to show that the workload reaches the POSIX-redundant sanitisation
clauses).
"""
import json
import os
import posixpath
import re
import time

import falcon
import falcon.asgi
import falcon.routing.static as static_mod

from detsim import disksim
from detsim.asgi_sim import Conn, HttpMonitor, http_scope
from detsim.core import HarnessError
from detsim.simloop import Env, SimLoop
from detsim.wsgi_sim import FileWrapper, SendfileWrapper, WsgiExchange, make_environ

PROPERTY = 'C16'
LEVEL = 'exploration'
RUNS = {'quick': 10000, 'thorough': 400000}
SWEEP = True
SWEEP_CAP = {'quick': 16, 'thorough': 48}
BATCH = 100
RULE = ('one workload = one add_static_route configuration (directory www or www/sub in four spellings, '
        '5 prefixes, downloadable, no / relative / nested / absolute-outside fallback, '
        'strip_url_path_trailing_slash) on a WSGI or ASGI app x one request (GET/HEAD/OPTIONS; path from '
        'the traversal grammar: plain names, one-edit mutations, dot-segment / encoded / backslash / '
        'overlong-UTF-8 traversals to files that exist only outside, absolute paths, directories, junk '
        'segments, over-long names; three percent-encoding styles; Range and If-Modified-Since from '
        'grammars tied to the file size / mtime) x read schedule (block size 1..8192, wsgi.file_wrapper '
        'on/off, short reads, executor and ack timing); its fault sweep = one extra run per fault '
        'opportunity (open/fstat/seek/read error, abandon or send failure at chunk j); non-trivial = a '
        'response was observed and (a fault fired or a short read happened or the body took >=2 reads); '
        'distinct = distinct (plan, I/O trace + fault + interleaving) pairs')
COMPONENTS = {
    'real': ['falcon.routing.static.StaticRoute / StaticRouteAsync / _BoundedFile / _AsyncFileReader',
             'App.add_static_route and static-route matching', 'Request.range / range_unit / '
             'if_modified_since', 'WSGI response path (App._get_body, CloseableStreamIterator)',
             'ASGI response path (stream.read via run_in_executor)', 'the file system below the '
             'proxies (real files, real open/fstat/seek/read)'],
    'stub': ['io/os module proxies in falcon.routing.static (fault injection)', 'open-audit hook',
             'WSGI server incl. wsgi.file_wrapper', 'ASGI server/client', 'event loop scheduler and '
             'executor', 'reference resolver and range/precondition model (oracle)'],
}
EXPECTED_PROBES = ('wsgi_stack', 'asgi_stack', 'file_served', 'range_206', 'range_416', 'status_304',
                   'fallback_served', 'traversal_refused', 'handles_left_open', 'short_reads',
                   'head_request', 'file_wrapper_used', 'dir_request', 'zero_size_range',
                   'open_error_404', 'fstat_error_404', 'seek_error_404', 'read_error_prefix',
                   'send_fail', 'abandoned', 'nonascii_served', 'abs_path_request', 'overlong_name',
                   'fallback_after_open_error', 'multi_read_body', 'lost_drop_mode')
ASSUMPTIONS = (
    'POSIX path semantics (the Windows-specific clauses of the sanitiser are redundant there)',
    'no symlinks in the tree; the tree is immutable while requests run',
    '"names a regular file" is decided lexically (weakest reading, see module docstring)',
    'attempted opens count: an audited open() outside the directory violates containment even if it '
    'fails (e.g. EISDIR)',
    'Range on an empty file: 200 with an empty body and 416 are both accepted; malformed or '
    'non-"bytes" Range values may be rejected (400/416), ignored (200) or honoured consistently (206)',
    'If-Modified-Since is compared at HTTP-date (1 s) resolution',
)

STRICT = os.environ.get('VERIF_C16_STRICT') == '1'

disksim.install_audit()
TREE = disksim.get_tree()

BLOCKS = [1, 2, 3, 5, 8, 64, 8192]
PREFIXES = ['/static', '/static/', '/', '/a/b', '/s.t/']


# ---------------------------------------------------------------------------
# configuration
# ---------------------------------------------------------------------------
class DirView(object):
    """What the tree looks like from one configured directory (cached)."""

    def __init__(self, rel):
        self.rel = rel
        self.abs = TREE.path(rel)
        self.inside = TREE.under(self.abs)                 # rel -> FileInfo
        self.names = sorted(self.inside)
        self.plain = [n for n in self.names if self.inside[n].plain]
        self.dirs = TREE.dirs_under(self.abs)
        self.outside = TREE.outside(self.abs)
        self.out_rel = [posixpath.relpath(f.abs, self.abs) for f in self.outside]


_VIEWS = {}


def view(rel):
    if rel not in _VIEWS:
        _VIEWS[rel] = DirView(rel)
    return _VIEWS[rel]


def gen_config(ch):
    rel = ['www', 'www/sub'][ch.weighted([5, 2], 'dir')]
    v = view(rel)
    sp = ch.weighted([5, 1, 1, 1], 'dir_spelling')
    if sp == 0:
        arg, spn = v.abs, 'plain'
    elif sp == 1:
        arg, spn = v.abs + '/', 'slash'
    elif sp == 2:
        arg, spn = v.abs + '/' + ('sub' if rel == 'www' else 'deep') + '/..', 'dotdot'
    else:
        arg, spn = v.abs, 'pathlib'
    prefix = PREFIXES[ch.weighted([6, 2, 2, 1, 1], 'prefix')]
    fbk = ch.weighted([6, 2, 1, 2], 'fallback')
    if fbk == 0:
        fb_arg, fb_info = None, None
    elif fbk == 1:
        fb_arg, fb_info = 'index.html', v.inside['index.html']
    elif fbk == 2:
        fb_arg = 'sub/inner.txt' if rel == 'www' else 'deep/leaf.js'
        fb_info = v.inside[fb_arg]
    else:
        fb_info = TREE.by_rel['fb/fallback.html']
        fb_arg = fb_info.abs
    return {
        'view': v, 'dir_arg': arg, 'dir_spelling': spn, 'prefix': prefix,
        'pslash': prefix if prefix.endswith('/') else prefix + '/',
        'downloadable': bool(ch.draw(2, 'downloadable')),
        'fb_kind': ['none', 'relative', 'nested', 'absolute'][fbk], 'fb_arg': fb_arg, 'fb': fb_info,
        'strip': ch.draw(8, 'strip_slash') == 7,
    }


# ---------------------------------------------------------------------------
# request grammar
# ---------------------------------------------------------------------------
EDIT_CHARS = [b'a', b'.', b'/', b' ', b'\\', b'~', b'%', b'?', b'\x00', b'\x7f', b'\xc2\x85',
              b'\xc3\xa9', b'\xff', b':', b'*', b'"', b'\t', b'\n', b'#', b';', b'\xef\xbf\xbd']
SUFFIXES = [b'/', b'.', b' ', b'/.', b'/..', b'%00', b'\x00', b'::$DATA', b'~', b'/x', b'..', b'\\',
            b'//', b'?', b'/../']
LEADS = [b'./', b'/', b' ', b'../', b'x/../', b'nosuch/../', b'.//', b'\\', b'././', b'%2e/',
         b'x?y/../', b'a\\b/../']
SEP_SUBST = [b'//', b'\\', b'/./', b'/x/../', b'\\/', b'///', b'/%2f', b'/../', b'/ /../']
UPS = [b'../', b'..\\', b'%2e%2e/', b'.../', b'....//', b'..;/', b'. ./', b'..\x00/',
       b'\xc0\xae\xc0\xae/', b'..//', b'.%2e/', b'\\..\\', b'\\056\\056/', b'..%2f', b'../.']
JUNK = [b'.', b'..', b'...', b'', b' ', b'CON', b'nul', b'\x01x', b'x\x7f', b'a~b', b'a?b', b'a<b',
        b'a>b', b'a:b', b'a*b', b'a|b', b"a'b", b'a"b', b'\xef\xbf\xbd', b'\xc3\xa9', b'\xc2\x85x',
        b'x.', b'x ', b' x', b'\xff\xfe', b'%2e%2e', b'A' * 200, b'A' * 300]

PATH_CLASSES = ['plain', 'edit', 'traversal', 'absolute', 'directory', 'outside_name', 'junk',
                'overlong']


def gen_remainder(ch, v):
    """-> (decoded remainder bytes, class)"""
    k = ch.weighted([12, 6, 6, 2, 2, 1, 3, 1], 'path_class')
    cls = PATH_CLASSES[k]
    if cls == 'plain':
        if ch.draw(8, 'any_name') == 7:
            name = v.names[ch.draw(len(v.names), 'name')]
        else:
            name = v.plain[ch.draw(len(v.plain), 'name')]
        return name.encode('utf-8'), cls
    if cls == 'edit':
        name = v.names[ch.draw(len(v.names), 'name')].encode('utf-8')
        op = ch.draw(7, 'edit_op')
        if op == 0 and len(name) > 1:
            i = ch.draw(len(name), 'at')
            return name[:i] + name[i + 1:], cls
        if op == 1:
            i = ch.draw(len(name) + 1, 'at')
            return name[:i] + ch.choice(EDIT_CHARS, 'char') + name[i:], cls
        if op == 2:
            i = ch.draw(len(name), 'at')
            return name[:i] + ch.choice(EDIT_CHARS, 'char') + name[i + 1:], cls
        if op == 3:
            i = ch.draw(len(name), 'at')
            return name[:i] + name[i:i + 1].swapcase() + name[i + 1:], cls
        if op == 4:
            return name + ch.choice(SUFFIXES, 'suffix'), cls
        if op == 5:
            return ch.choice(LEADS, 'lead') + name, cls
        cuts = [i for i in range(len(name)) if name[i:i + 1] == b'/']
        if not cuts:
            return ch.choice(LEADS, 'lead') + name, cls
        i = cuts[ch.draw(len(cuts), 'sep_at')]
        return name[:i] + ch.choice(SEP_SUBST, 'sep') + name[i + 1:], cls
    if cls == 'traversal':
        rel = v.out_rel[ch.draw(len(v.out_rel), 'target')]
        parts = rel.split('/')
        ups = 0
        while ups < len(parts) and parts[ups] == '..':
            ups += 1
        rest = '/'.join(parts[ups:]).encode('utf-8')
        pre = b''
        if v.dirs and ch.draw(3, 'via_dir') == 2:
            d = v.dirs[ch.draw(len(v.dirs), 'dir_name')]
            pre = d.encode('utf-8') + b'/'
            ups += d.count('/') + 1
        ups += [0, 0, 0, 1, 2][ch.draw(5, 'extra_up')]
        tok = UPS[ch.weighted([14] + [1] * (len(UPS) - 1), 'up_token')]
        if ch.draw(4, 'mixed_ups') == 3:
            body = b''.join(UPS[ch.weighted([3] + [1] * (len(UPS) - 1), 'up_token')]
                            for _ in range(ups))
        else:
            body = tok * ups
        return pre + body + rest, cls
    if cls == 'absolute':
        pool = v.outside + [v.inside[n] for n in v.names[:3]]
        f = pool[ch.draw(len(pool), 'target')]
        p = f.abs.encode('utf-8')
        form = ch.draw(4, 'abs_form')
        if form == 0:
            return p, cls                      # '/static/' + '/abs/...'
        if form == 1:
            return p[1:], cls
        if form == 2:
            return b'/' + p, cls
        return b'./' + p, cls
    if cls == 'directory':
        cands = [''] + v.dirs
        d = cands[ch.draw(len(cands), 'dir_name')].encode('utf-8')
        tail = ch.draw(6, 'dir_tail')
        if tail < 4:
            return d + [b'', b'/', b'/.', b'/index.html'][tail], cls
        # exactly one level above the directory, spelled with a trailing
        # slash: normalizes to '..' (no separator after it)
        ups = b'../' * ((d.count(b'/') + 2) if d else 1)
        return (d + b'/' if d else b'') + ups + (b'./' if tail == 5 else b''), cls
    if cls == 'outside_name':
        rel = v.out_rel[ch.draw(len(v.out_rel), 'target')]
        parts = [p for p in rel.split('/') if p != '..']
        j = ch.draw(len(parts), 'tail_from')
        return '/'.join(parts[j:]).encode('utf-8'), cls
    if cls == 'junk':
        n = 1 + ch.draw(5, 'n_seg')
        out = b''
        pool = JUNK + [x.encode('utf-8') for x in v.dirs] + [b'secret.txt', b'outside', b'www2',
                                                              b'inner.txt', b'f1.txt']
        for i in range(n):
            if i:
                out += [b'/', b'/', b'/', b'//', b'\\'][ch.draw(5, 'sep')]
            out += pool[ch.draw(len(pool), 'seg')]
        return out, cls
    # overlong
    name = v.plain[ch.draw(len(v.plain), 'name')].encode('utf-8')
    form = ch.draw(4, 'long_form')
    if form == 0:
        return b'./' * (250 + ch.draw(10, 'pad')) + name, cls
    if form == 1:
        return b'A' * (509 + ch.draw(8, 'pad')), cls
    if form == 2:
        return name + b'/' + b'A' * 600, cls
    return b'x/../' * 103 + name, cls


_SAFE = frozenset(b"ABCDEFGHIJKLMNOPQRSTUVWXYZabcdefghijklmnopqrstuvwxyz0123456789-._~/!$&'()*+,;=:@")
_HEX = '0123456789abcdef'


def pct_decode(b):
    out = bytearray()
    i = 0
    n = len(b)
    while i < n:
        c = b[i]
        if c == 0x25 and i + 2 < n:
            h = b[i + 1:i + 3].decode('latin-1').lower()
            if len(h) == 2 and h[0] in _HEX and h[1] in _HEX:
                out.append(int(h, 16))
                i += 3
                continue
        out.append(c)
        i += 1
    return bytes(out)


def pct_encode(dec, style, off, upper):
    """Request-target for the decoded path. style 0: only what must be
    escaped; 1: additionally every '.', '/' (but the first) and '\\';
    2: additionally every third byte starting at `off`."""
    fmt = '%%%02X' if upper else '%%%02x'
    out = []
    for i, c in enumerate(dec):
        esc = c not in _SAFE
        if not esc and i:
            if style == 1 and c in b'./':
                esc = True
            elif style == 2 and (i + off) % 3 == 0:
                esc = True
        out.append(fmt % c if esc else chr(c))
    return ''.join(out)


_DAYS = ['Mon', 'Tue', 'Wed', 'Thu', 'Fri', 'Sat', 'Sun']
_MONTHS = ['Jan', 'Feb', 'Mar', 'Apr', 'May', 'Jun', 'Jul', 'Aug', 'Sep', 'Oct', 'Nov', 'Dec']


def http_date(epoch):
    t = time.gmtime(epoch)      # pure function of its argument
    return '%s, %02d %s %04d %02d:%02d:%02d GMT' % (
        _DAYS[t.tm_wday], t.tm_mday, _MONTHS[t.tm_mon - 1], t.tm_year, t.tm_hour, t.tm_min, t.tm_sec)


def gen_ims(ch, base_sec):
    k = ch.weighted([10, 3, 3, 3, 1], 'ims')
    if k == 0:
        return None, None, 'none'
    if k == 1:
        e = base_sec - [1, 2, 3600, 86400 * 400][ch.draw(4, 'ims_delta')]
        return http_date(e), e, 'before'
    if k == 2:
        return http_date(base_sec), base_sec, 'at'
    if k == 3:
        e = base_sec + [1, 2, 86400, 86400 * 4000][ch.draw(4, 'ims_delta')]
        return http_date(e), e, 'after'
    t = time.gmtime(base_sec)
    bad = ['yesterday', '', '0', 'Saturday, 11-Jan-25 17:52:14 GMT', 'Sat Jan 11 17:52:14 2025',
           http_date(base_sec)[:-4], http_date(base_sec).replace('GMT', 'UTC'),
           '%04d-%02d-%02dT00:00:00Z' % (t.tm_year, t.tm_mon, t.tm_mday)]
    return bad[ch.draw(len(bad), 'ims_bad')], None, 'malformed'


# a unit other than "bytes": RFC 9110 14.2 "MUST ignore" / tests: "unknown unit; ignore"
OTHER_UNITS = ['items=0-1', 'words=1-3', 'none=0-0', 'bytes2=0-1', 'octets=-2', 'lines=0-',
               # the range-set of an unknown unit has a grammar of its own: nothing to validate
               'items=5-2', 'seconds=1.5-3', 'words=1-3,5-7', 'pages=a-b', 'rows=--', 'chapters=iv']
# neither: may be rejected, ignored or honoured consistently (R3)
WEAK_RANGES = ['Bytes=0-1', 'BYTES=-2', '=0-1', '0-1', 'bytes', 'bytes=', 'bytes=-', 'bytes=a-b',
               'bytes=1-0', 'bytes=0-0,2-3', 'bytes=0-0,-1', 'bytes=-0', 'bytes=1--3', 'bytes=--1',
               'bytes=0-1-2', 'bytes= 0-1', 'bytes=0 - 1', 'bytes=+0-+1', 'bytes=0x1-3',
               'bytes=0-1;q=1', 'bytes==0-1', 'bytes=1_0-1_1', 'bytes 0-1', 'bytes=0-\t1', 'bytes=5-2']


def gen_range(ch, n):
    """-> (header value | None, class, parsed) where parsed is ('fl', a, b) /
    ('f', a) / ('s', k) for well-formed single byte ranges, None otherwise."""
    k = ch.weighted([8, 4, 3, 3, 3, 2, 1], 'range')
    if k == 0:
        return None, 'none', None
    if k == 1:
        a = ch.draw(n + 2, 'first')
        b = a + ch.draw(n + 3 - min(a, n + 1), 'span')
        return 'bytes=%d-%d' % (a, b), 'first-last', ('fl', a, b)
    if k == 2:
        a = ch.draw(n + 2, 'first')
        return 'bytes=%d-' % a, 'first-', ('f', a)
    if k == 3:
        s = 1 + ch.draw(n + 2, 'suffix')
        return 'bytes=-%d' % s, '-suffix', ('s', s)
    if k == 4:
        big = [99999999999999999999, 18446744073709551616, 2 ** 31, 2 ** 63 - 1][ch.draw(4, 'big')]
        m = max(n - 1, 0)
        edge = [('fl', 0, 0), ('s', 1), ('fl', m, m), ('f', n), ('fl', 0, m), ('s', max(n, 1)),
                ('fl', 0, big), ('f', big), ('s', big), ('fl', m, big), ('fl', n, n), ('fl', big, big),
                ('f', m), ('s', n + 1), ('fl', 0, n)][ch.draw(15, 'edge')]
        if edge[0] == 'fl':
            return 'bytes=%d-%d' % (edge[1], edge[2]), 'edge', edge
        if edge[0] == 'f':
            return 'bytes=%d-' % edge[1], 'edge', edge
        return 'bytes=-%d' % edge[1], 'edge', edge
    if k == 6:
        return OTHER_UNITS[ch.draw(len(OTHER_UNITS), 'other_unit')], 'other_unit', None
    return WEAK_RANGES[ch.draw(len(WEAK_RANGES), 'weak_range')], 'weak', None


class Req(object):
    pass


def gen_request(ch, cfg):
    v = cfg['view']
    r = Req()
    r.method = ['GET', 'HEAD', 'OPTIONS'][ch.weighted([16, 2, 1], 'method')]
    rem, r.cls = gen_remainder(ch, v)
    pm = ch.weighted([14, 1, 1], 'prefix_match')
    ps = cfg['pslash'].encode()
    if pm == 0:
        dec = ps + rem
        r.pm = 'under'
    elif pm == 1:
        dec = ps[:-1] or b'/'
        r.pm = r.cls = 'bare'
    else:
        dec = (ps[:-1] + b'x/' + rem) if len(ps) > 1 else ps + rem
        r.pm = 'sibling' if len(ps) > 1 else 'under'
        if r.pm == 'sibling':
            r.cls = 'not_under_prefix'
    r.dec = dec
    style = ch.weighted([3, 1, 1], 'enc_style')
    off, upper = ch.draw(3, 'enc_off'), bool(ch.draw(2, 'enc_upper'))
    r.target = pct_encode(dec, style, off, upper)
    # process-independent rendering for logs, plans and messages (the tree
    # lives below a randomly named temp dir)
    r.shown = pct_encode(TREE.show(dec), style, off, upper)
    if pct_decode(r.target.encode('ascii')) != dec:
        raise HarnessError('percent-encoding does not round-trip: %r' % (r.target,))
    # what the framework receives (both stacks): UTF-8 with replacement
    r.path = dec.decode('utf-8', 'replace')
    # size / mtime the header grammars are tied to: the file the path names,
    # if it names one; otherwise a drawn size
    named = resolve(cfg, r.path)
    tgt = named[0] if named else (cfg['fb'] if cfg['fb'] is not None and ch.draw(2, 'tie_fb') else None)
    n = tgt.size if tgt is not None else ch.draw(13, 'assumed_size')
    base = tgt.mtime_sec if tgt is not None else int(disksim.MTIME)
    if r.method == 'OPTIONS':
        r.range_val, r.range_cls, r.range = None, 'none', None
        r.ims_val, r.ims_epoch, r.ims_cls = None, None, 'none'
    else:
        r.range_val, r.range_cls, r.range = gen_range(ch, n)
        r.ims_val, r.ims_epoch, r.ims_cls = gen_ims(ch, base)
    # what the client accepts decides whether an error response (404, 416, 400) carries a document
    r.accept = [None, None, None, 'text/html', 'image/png, text/css;q=0.5', 'application/xml;q=0.2'][
        ch.draw(6, 'accept')]
    return r


# ---------------------------------------------------------------------------
# reference: which file does a request path name? (see module docstring)
# ---------------------------------------------------------------------------
def effective_path(cfg, path):
    if cfg['strip'] and len(path) != 1 and path.endswith('/'):
        return path[:-1]
    return path


def remainder_of(cfg, path):
    """The part after the prefix, or None when the path is not under it."""
    p = effective_path(cfg, path)
    ps = cfg['pslash']
    if p.startswith(ps):
        return p[len(ps):]
    if p == ps[:-1]:
        return ''
    return None


def resolve(cfg, path):
    """-> list of FileInfo inside the configured directory that `path` may be
    read as naming (weakest reading); [] if none; None if not under the prefix."""
    rem = remainder_of(cfg, path)
    if rem is None:
        return None
    v = cfg['view']
    out = []
    if '\0' in rem:
        return out
    base = v.abs + '/'
    cands = [posixpath.normpath(base + rem)]
    if rem.startswith('/'):
        cands.append(posixpath.normpath(rem))
    for c in cands:
        if c.startswith('//'):
            c = c[1:]
        if c.startswith(base):
            f = v.inside.get(c[len(base):])
            if f is not None and f not in out:
                out.append(f)
    return out


_HOSTILE = re.compile('[\x00-\x1f\x80-\x9f\ufffd~?<>:*|\'"\\\\]|//')


def hostile_spelling(rem):
    return bool(_HOSTILE.search(rem)) or rem.strip().rstrip('.') != rem or len(rem) > 512


# ---------------------------------------------------------------------------
# apps
# ---------------------------------------------------------------------------
_APP_CLS = {}


def app_class(asgi, block):
    key = (asgi, block)
    if key not in _APP_CLS:
        base = falcon.asgi.App if asgi else falcon.App
        _APP_CLS[key] = type('SimApp', (base,), {'_STREAM_BLOCK_SIZE': block})
    return _APP_CLS[key]


def build_app(cfg, asgi, block):
    app = app_class(asgi, block)()
    if cfg['strip']:
        app.req_options.strip_url_path_trailing_slash = True
    d = cfg['dir_arg']
    if cfg['dir_spelling'] == 'pathlib':
        import pathlib
        d = pathlib.Path(d)
    if cfg.get('history'):
        # a start-up history of registrations that the final one must shadow completely
        # (routes are consulted newest first): same prefix -> a directory outside the tree,
        # then a more specific prefix -> another directory outside the tree. No decoy has a
        # fallback: a route with a fallback also matches the bare prefix, which the final
        # registration (without one) legitimately does not shadow.
        sub = 'sub' if cfg['view'].rel == 'www' else 'deep'
        app.add_static_route(cfg['prefix'], TREE.path('outside'))
        app.add_static_route(cfg['pslash'] + sub, TREE.path('outside/sub'), downloadable=True)
        if cfg['history'] == 2:
            app.add_static_route(cfg['prefix'], TREE.path('www2'), downloadable=True)
    app.add_static_route(cfg['prefix'], d, downloadable=cfg['downloadable'],
                         fallback_filename=cfg['fb_arg'])
    return app


class Resp(object):
    def __init__(self):
        self.status = None
        self.headers = {}        # lower-case name -> [values]
        self.body = b''
        self.chunks = 0
        self.raised = None       # exception that escaped the app / the iteration
        self.started = False

    def header(self, name):
        v = self.headers.get(name)
        return v[0] if v else None


def request_headers(req):
    h = []
    if req.range_val is not None:
        h.append(('Range', req.range_val))
    if req.ims_val is not None:
        h.append(('If-Modified-Since', req.ims_val))
    if getattr(req, 'accept', None) is not None:
        h.append(('Accept', req.accept))
    return h


def exchange_wsgi(ctx, app, req, knobs, state):
    fw = (SendfileWrapper if knobs.get('sendfile') else FileWrapper) if knobs['file_wrapper'] else None
    env = make_environ(method=req.method, path=req.dec, headers=request_headers(req), file_wrapper=fw)
    ex = WsgiExchange(ctx)
    resp = Resp()
    if not ex.call(app, env):
        resp.raised = ex.app_exc
    else:
        it = ex.iterable
        streaming = not isinstance(it, (list, tuple))
        if streaming and fw is not None and isinstance(it, FileWrapper):
            ctx.probe('file_wrapper_used')
        try:
            iterator = iter(it)
            while True:
                if streaming and knobs['faults'] and ctx.opportunity('abandon'):
                    state['fault'] = 'abandon'
                    ctx.probe('abandoned')
                    break
                try:
                    chunk = next(iterator)
                except StopIteration:
                    break
                except Exception as e:       # what a server sees; judged below
                    resp.raised = e
                    break
                ex.chunks.append(bytes(chunk))
        finally:
            close = getattr(it, 'close', None)
            if close is not None:
                try:
                    close()
                except Exception as e:
                    resp.raised = resp.raised or e
    resp.status = ex.status_code
    resp.started = ex.start_calls > 0
    for n, val in (ex.headers or []):
        resp.headers.setdefault(n.lower(), []).append(val)
    resp.body = b''.join(ex.chunks)
    resp.chunks = len(ex.chunks)
    if ex.violations:
        ctx.probe('monitor_flag')
    return resp, len(ex.chunks)


class _Conn(Conn):
    """Conn whose send() offers a single-fault-sweep opportunity per call."""

    def __init__(self, ctx, state, *a, **kw):
        Conn.__init__(self, *a, **kw)
        self._ctx = ctx
        self._state = state
        self._streaming = False

    async def send(self, event):
        # offered while a file body is being streamed (a send failure on an
        # error response says nothing about C16 and only dilutes the sweep)
        if event.get('type') == 'http.response.start':
            self._streaming = event.get('status') in (200, 206) and self.scope['method'] == 'GET'
        if (self._streaming and self._state['faults'] and not self.lost
                and self._ctx.opportunity('send_fail')):
            self._state['fault'] = 'send_fail'
            self._ctx.probe('send_fail')
            self.lose(abrupt=True)
        return await Conn.send(self, event)


class _Env(Env):
    def __init__(self):
        self.conn = None

    def actions(self):
        return self.conn.actions(3, 3, 3)


class _Sim(object):
    def __init__(self, loop, ch, ctx):
        self.loop, self.chooser, self.ctx = loop, ch, ctx

    def note(self, name):
        self.ctx.probe(name)


def exchange_asgi(ctx, app, req, knobs, state):
    ch = ctx.ch
    env = _Env()
    loop = SimLoop(ch, env, max_steps=4000)
    sim = _Sim(loop, ch, ctx)
    scope = http_scope(method=req.method, path=req.dec, headers=request_headers(req))
    scope['raw_path'] = req.target.encode('ascii')
    events = [{'type': 'http.request', 'body': b'', 'more_body': False}]
    conn = _Conn(ctx, state, sim, 'http', scope, events, HttpMonitor(),
                 send_suspends=knobs['send_suspends'], lost_mode=knobs['lost_mode'])
    env.conn = conn
    if knobs['predeliver']:
        conn.deliver()
    result = {}

    async def driver():
        try:
            await app(scope, conn.receive, conn.send)
        except Exception as e:       # what a server sees; judged below
            result['exc'] = e

    resp = Resp()
    try:
        task = loop.run_main(driver())
        finished = task.done()
    finally:
        ctx.steps = loop.steps
        state['sched'] = loop.sig()
        try:
            loop.drain()
        finally:
            loop.close()
    if not finished:
        raise HarnessError('ASGI exchange did not finish (quiescent with the app blocked)')
    mon = conn.monitor
    resp.raised = result.get('exc')
    resp.status = mon.status
    resp.started = mon.starts > 0
    for n, val in (mon.headers or []):
        resp.headers.setdefault(n.decode('latin-1'), []).append(val.decode('latin-1'))
    resp.body = mon.body
    resp.chunks = len([c for c in mon.body_chunks if c])
    if mon.violations:
        ctx.probe('monitor_flag')
    if loop.errors:
        ctx.probe('loop_error_report')
    return resp, loop.steps


# ---------------------------------------------------------------------------
# oracles
# ---------------------------------------------------------------------------
_CR = re.compile(r'^bytes (\d+)-(\d+)/(\d+)$')


def alternatives(req, n):
    """Acceptable outcomes of serving a file of size n, most expected first."""
    if req.range_val is None:
        return [('full',)]
    if req.range_cls == 'other_unit':
        return [('full',)]
    if req.range is None:
        # not a well-formed single "bytes" range: reject, ignore or honour
        return [('full',), ('400',), ('416',), ('any206',)]
    if n == 0:
        # R3: RFC 9110 calls every range on an empty representation
        # unsatisfiable; the code documents serving the empty body instead
        return [('full',), ('416',)]
    kind = req.range[0]
    if kind == 's':
        a = max(0, n - req.range[1])
        return [('slice', a, n - 1)]
    a = req.range[1]
    if a >= n:
        return [('416',)]
    b = n - 1 if kind == 'f' else min(req.range[2], n - 1)
    return [('slice', a, b)]


def explain(f, req, resp, relaxed):
    """None when `resp` is a correct way of serving file `f` for `req`; else
    (oracle id, kind, message)."""
    data, n = f.data, f.size
    st = resp.status
    head = req.method == 'HEAD'

    def body_ok(expect):
        if head:
            return resp.body == b''
        if relaxed:
            return expect.startswith(resp.body)
        return resp.body == expect

    # -- precondition ------------------------------------------------------
    if req.ims_epoch is not None and f.mtime_sec <= req.ims_epoch:
        if st != 304:
            return ('static.not_modified', 'status', 'If-Modified-Since %r is not before the mtime '
                    '(%s) of %s but the status is %s, not 304' % (req.ims_val, http_date(f.mtime_sec),
                                                                   f.rel, st))
        if resp.body:
            return ('static.not_modified', 'body', '304 with %d body byte(s) %r' % (
                len(resp.body), resp.body[:40]))
        return None
    if st == 304:
        return ('static.not_modified', 'spurious', '304 although If-Modified-Since is %r and %s was '
                'modified at %s' % (req.ims_val, f.rel, http_date(f.mtime_sec)))
    if req.ims_val is not None and req.ims_epoch is None and st == 400:
        return None          # malformed date rejected (it may also be ignored)
    # -- representation ----------------------------------------------------
    oid = 'static.range' if req.range_val is not None else 'static.body'
    alts = alternatives(req, n)
    cr = resp.header('content-range')
    cl = resp.header('content-length')
    why = None
    for alt in alts:
        k = alt[0]
        if k == 'full':
            if st != 200:
                w = ('status', 'status %s, expected 200 with the %d file bytes' % (st, n))
            elif not body_ok(data):
                w = ('body', 'body %r is not %s the bytes %r of %s' % (
                    resp.body[:60], 'a prefix of' if relaxed else 'equal to', data[:60], f.rel))
            else:
                return None
        elif k == 'slice':
            a, b = alt[1], alt[2]
            want_cr = 'bytes %d-%d/%d' % (a, b, n)
            if st != 206:
                w = ('status', 'status %s, expected 206 for the satisfiable range %r of the %d-byte '
                     'file %s' % (st, req.range_val, n, f.rel))
            elif cr != want_cr:
                w = ('content_range', 'Content-Range %r, expected %r' % (cr, want_cr))
            elif cl != str(b - a + 1):
                w = ('content_length', 'Content-Length %r, expected %d' % (cl, b - a + 1))
            elif not body_ok(data[a:b + 1]):
                w = ('body', 'body %r is not %s file[%d:%d] = %r (Range %r, size %d)' % (
                    resp.body[:60], 'a prefix of' if relaxed else 'equal to', a, b + 1,
                    data[a:b + 1][:60], req.range_val, n))
            else:
                return None
        elif k == '416':
            if st != 416:
                w = ('status', 'status %s, expected 416 for the unsatisfiable range %r of the %d-byte '
                     'file %s' % (st, req.range_val, n, f.rel))
            elif cr != 'bytes */%d' % n:
                w = ('content_range', '416 with Content-Range %r, expected %r' % (cr, 'bytes */%d' % n))
            else:
                return None
        elif k == '400':
            if st == 400:
                return None
            w = ('status', 'status %s' % st)
        else:   # any206: self-consistent partial response
            m = _CR.match(cr or '')
            if st != 206 or not m:
                w = ('status', 'status %s / Content-Range %r' % (st, cr))
            else:
                a, b, tot = int(m.group(1)), int(m.group(2)), int(m.group(3))
                if tot != n or not (0 <= a <= b < n):
                    w = ('content_range', 'Content-Range %r does not fit the %d-byte file' % (cr, n))
                elif cl != str(b - a + 1):
                    w = ('content_length', 'Content-Length %r vs Content-Range %r' % (cl, cr))
                elif not body_ok(data[a:b + 1]):
                    w = ('body', 'body %r is not file[%d:%d]' % (resp.body[:60], a, b + 1))
                else:
                    return None
        if why is None:
            why = w
    return (oid, why[0], why[1])


def disclosed(resp, v):
    """Name of an outside file whose bytes appear in the body (message only)."""
    if len(resp.body) < 3:
        return None
    for f in v.outside:
        if resp.body in f.data or f.data in resp.body:
            return f.rel
    return None


def judge(ctx, cfg, req, resp, opens, fault, stack):
    v = cfg['view']
    # Signature fields are the ones an oracle's verdict can depend on (the
    # shrinker keeps the signature fixed, so irrelevant fields would pin
    # irrelevant parts of the input): path handling does not look at headers
    # or faults, range handling does not look at the spelling of the path.
    full = {'stack': stack, 'fault': fault or 'none', 'path': req.cls, 'range': req.range_cls,
            'ims': req.ims_cls}
    fields = {'static.containment': ('stack', 'path'),
              'static.not_found': ('stack', 'path'),
              'static.body': ('stack', 'fault', 'path'),
              'static.range': ('stack', 'fault', 'range'),
              'static.not_modified': ('stack', 'ims'),
              'static.fault_status': ('stack', 'fault')}

    def violate(oid, msg, **extra):
        sg = dict((k, full[k]) for k in fields[oid])
        sg.update(extra)
        ctx.violate(oid, msg, **sg)
    show = TREE.show
    what = '%s %s (decoded %r) on prefix %r -> %s%s, fallback %s' % (
        req.method, req.shown[:300], show(req.path)[:300], cfg['prefix'], v.rel,
        ' [%s]' % cfg['dir_spelling'] if cfg['dir_spelling'] != 'plain' else '', cfg['fb_kind'])

    # -- containment: every audited open is inside the directory or is the
    #    configured fallback file
    base = v.abs + '/'
    fb = cfg['fb']
    for p in opens:
        if p.startswith(base) or (fb is not None and p == fb.abs):
            continue
        if p == v.abs:
            continue         # the directory itself (remainder '' or '.') is not outside
        if p.startswith(TREE.root + '/') or p == TREE.root:
            where = 'parent' if (v.abs + '/').startswith(p + '/') else (
                'sibling_prefix' if p.startswith(v.abs) else 'outside_tree')
        else:
            where = 'external'
        violate('static.containment', '%s: open(%r) is outside the configured directory' % (
                what, show(p)), where=where)
        break

    rem = remainder_of(cfg, req.path)
    named = resolve(cfg, req.path)
    if req.method == 'OPTIONS' or named is None:
        # OPTIONS is answered without looking at the path (CORS support); a
        # path that is not under the prefix is outside the statement (R3).
        # Only containment applies.
        return
    must = (rem in v.inside and v.inside[rem].plain and effective_path(cfg, req.path) == req.path)
    relaxed = fault in ('read_error', 'send_fail', 'abandon')
    open_fault = fault in ('open_error', 'fstat_error', 'seek_error')
    st = resp.status

    if resp.raised is not None and not relaxed:
        oid = 'static.fault_status' if open_fault else ('static.body' if named else 'static.not_found')
        violate(oid, '%s: exception escaped: %r' % (what, resp.raised), kind='raised')
        return
    if st is None:
        if not relaxed:
            raise HarnessError('no response observed without a send/abandon fault')
        return
    if open_fault and st == 404:
        ctx.probe(fault + '_404')
    if st == 404:
        if must and not open_fault:
            violate('static.body', '%s: 404 although %s is a regular file inside the directory' % (
                    what, named[0].rel), kind='unexpected_404')
        elif not named and req.cls in ('traversal', 'absolute'):
            ctx.probe('traversal_refused')
        return
    if st >= 500:
        if open_fault:
            violate('static.fault_status', '%s: injected %s answered with %s instead of 404%s' % (
                    what, fault, st, ' or the fallback' if fb is not None else ''), kind='5xx')
        elif named:
            violate('static.body', '%s: status %s' % (what, st), kind='5xx')
        else:
            violate('static.not_found', '%s: names no regular file inside the directory, status %s '
                    'instead of 404' % (what, st), kind='5xx')
        return

    # a response other than 404/5xx must be a correct serving of a file the
    # path names, or of the configured fallback
    expl = [('file', f) for f in named]
    if fb is not None and not must:
        expl.append(('fallback', fb))
    elif fb is not None and open_fault:
        expl.append(('fallback', fb))
    first = None
    for label, f in expl:
        bad = explain(f, req, resp, relaxed)
        if bad is None:
            if st in (200, 206):
                ctx.probe('file_served' if label == 'file' else 'fallback_served')
                if label == 'fallback' and fault == 'open_error':
                    ctx.probe('fallback_after_open_error')
                if not f.rel.isascii():
                    ctx.probe('nonascii_served')
                if st == 206:
                    ctx.probe('range_206')
                if relaxed and fault == 'read_error':
                    ctx.probe('read_error_prefix')
            elif st == 416:
                ctx.probe('range_416')
            elif st == 304:
                ctx.probe('status_304')
            if f.size == 0 and req.range is not None:
                ctx.probe('zero_size_range')
            if label == 'file' and rem is not None and hostile_spelling(rem) and st in (200, 206, 304, 416):
                ctx.probe('hostile_spelling_served')
                if STRICT:
                    violate('static.not_found', '%s: [strict reading] a hostile spelling was '
                            'served (%s)' % (what, st), kind='hostile_spelling')
            return
        if first is None:
            first = bad
    if not expl:
        d = disclosed(resp, v)
        violate('static.not_found', '%s: names no regular file inside the directory, but the status '
                'is %s (body %r%s)' % (what, st, resp.body[:40],
                ', which discloses %s' % d if d else ''),
                kind='disclosure' if d else 'status')
        return
    oid, kind, msg = first
    if open_fault and kind == 'status':
        oid = 'static.fault_status'
        msg = 'after the injected %s: %s' % (fault, msg)
    elif not named:
        # only the fallback could have explained it
        d = disclosed(resp, v)
        oid = 'static.not_found'
        kind = 'disclosure' if d else 'not_the_fallback'
        msg = 'names no regular file inside the directory and is not a correct serving of the ' \
              'fallback either: %s%s' % (msg, ' (discloses %s)' % d if d else '')
    violate(oid, '%s: %s' % (what, msg), kind=kind)


# ---------------------------------------------------------------------------
# warm-up: lazy imports must not show up as audited opens
# ---------------------------------------------------------------------------
def _prewarm():
    import _strptime                      # noqa: F401  (datetime.strptime)
    import email.utils                    # noqa: F401
    import mimetypes                      # noqa: F401
    import pathlib                        # noqa: F401
    from detsim.chooser import Chooser
    from detsim.core import RunCtx
    v = view('www')
    for asgi in (False, True):
        for target, hdrs in (('/static/f3.js', ('bytes=0-1', http_date(0))),
                             ('/static/f3.js', ('bytes=9-', None)),
                             ('/static/f3.js', ('junk', None)),
                             ('/static/f3.js', (None, 'junk')),
                             ('/static/f3.js', (None, http_date(2000000000))),
                             ('/static/nope', (None, None))):
            ctx = RunCtx(Chooser(seed=0))
            cfg = {'view': v, 'dir_arg': v.abs, 'dir_spelling': 'plain', 'prefix': '/static',
                   'pslash': '/static/', 'downloadable': True, 'fb_kind': 'none', 'fb_arg': None,
                   'fb': None, 'strip': False}
            req = Req()
            req.method, req.dec, req.target = 'GET', target.encode(), target
            req.range_val, req.ims_val = hdrs
            app = build_app(cfg, asgi, 4)
            knobs = {'file_wrapper': False, 'send_suspends': False, 'lost_mode': 'oserror',
                     'predeliver': True, 'faults': False}
            (exchange_asgi if asgi else exchange_wsgi)(ctx, app, req, knobs, {'faults': False})


_prewarm()


# ---------------------------------------------------------------------------
# one run
# ---------------------------------------------------------------------------
SERVER_TZS = ['UTC', 'UTC', 'EST5', 'MSK-3', 'IST-5:30', 'NZST-12']


def run(ctx):
    """The server's local time zone is an environment knob: nothing the route
    does may depend on it (file times are compared and reported in UTC)."""
    import time as _time
    tz = SERVER_TZS[ctx.ch.draw(len(SERVER_TZS), 'server_tz')]
    old = os.environ.get('TZ')
    os.environ['TZ'] = tz
    _time.tzset()
    try:
        _run(ctx, tz)
    finally:
        if old is None:
            os.environ.pop('TZ', None)
        else:
            os.environ['TZ'] = old
        _time.tzset()


def _run(ctx, server_tz):
    ch = ctx.ch
    cfg = gen_config(ch)
    req = gen_request(ch, cfg)
    asgi = bool(ch.draw(2, 'stack'))
    stack = 'asgi' if asgi else 'wsgi'
    cfg['history'] = [0, 0, 0, 1, 2][ch.draw(5, 'registration_history')]
    if cfg['history']:
        ctx.probe('shadowed_earlier_registrations')
    ctx.probe(stack + '_stack')
    knobs = {
        'block': BLOCKS[ch.weighted([2, 2, 3, 2, 2, 1, 2], 'block')],
        # R4: a quarter of the workloads run with every fault off (and are not swept)
        'faults': ch.draw(4, 'faults_on') != 0,
        'short': ch.draw(3, 'short_mode') == 2,
        'file_wrapper': bool(ch.draw(2, 'file_wrapper')) if not asgi else False,
        'sendfile': bool(ch.draw(2, 'sendfile_style_wrapper')) if not asgi else False,
        'send_suspends': bool(ch.draw(2, 'send_suspends')) if asgi else False,
        'lost_mode': ['oserror', 'drop'][ch.draw(2, 'lost_mode')] if asgi else 'oserror',
        'predeliver': bool(ch.draw(2, 'predeliver')) if asgi else True,
    }
    if not knobs['faults']:
        knobs['short'] = False
    v = cfg['view']
    show = TREE.show
    ctx.plan = {
        'stack': stack, 'accept': getattr(req, 'accept', None), 'dir': v.rel, 'dir_spelling': cfg['dir_spelling'], 'prefix': cfg['prefix'],
        'downloadable': cfg['downloadable'], 'fallback': cfg['fb_kind'], 'strip_slash': cfg['strip'],
        'method': req.method, 'target': req.shown[:300], 'path_class': req.cls,
        'prefix_match': req.pm, 'range': req.range_val, 'range_class': req.range_cls,
        'if_modified_since': req.ims_val, 'ims_class': req.ims_cls, 'knobs': knobs,
        'server_tz': server_tz,
    }
    ctx.plan_key = json.dumps(ctx.plan, sort_keys=True)
    if req.method == 'HEAD':
        ctx.probe('head_request')
    if req.cls == 'directory':
        ctx.probe('dir_request')
    elif req.cls == 'absolute':
        ctx.probe('abs_path_request')
    elif req.cls == 'overlong':
        ctx.probe('overlong_name')
    if asgi and knobs['lost_mode'] == 'drop':
        ctx.probe('lost_drop_mode')

    # an earlier, fault-free request served by the same app (another path / range): the
    # route must not remember anything from it (file objects, sizes, ranges, validators)
    pre_req = gen_request(ch, cfg) if ch.draw(3, 'pre_request') == 2 else None
    if pre_req is not None:
        ctx.plan['pre_request'] = {'method': pre_req.method, 'target': pre_req.shown[:120],
                                   'range': pre_req.range_val}
        ctx.plan_key = json.dumps(ctx.plan, sort_keys=True)
        ctx.probe('pre_request')

    # ---- all workload draws are done; the fault site comes next, schedule
    # ---- draws (short-read lengths, loop scheduling) after it
    if knobs['faults']:
        ctx.draw_fault_site()
        if knobs['short']:
            ch.enable_fault('short_read', 1, 2)
    state = {'fault': None, 'sched': '', 'faults': knobs['faults']}

    def fault(kind):
        if state.get('pre'):
            return False
        if knobs['faults'] and ctx.opportunity(kind):
            state['fault'] = kind
            return True
        return False

    def short(n):
        if state.get('pre'):
            return n
        if knobs['short'] and ch.fault('short_read'):
            return 1 + ch.draw(n - 1, 'short_len')
        return n

    ctl = disksim.DiskCtl(fault, short)
    app = build_app(cfg, asgi, knobs['block'])
    try:
        with disksim.patched(static_mod, ctl):
            if pre_req is not None:
                state['pre'] = True
                pre_knobs = dict(knobs)
                pre_knobs['faults'] = False
                try:
                    (exchange_asgi if asgi else exchange_wsgi)(ctx, app, pre_req, pre_knobs,
                                                               {'fault': None, 'sched': '', 'faults': False})
                finally:
                    state['pre'] = False
                    ctl.close_all()
            disksim.audit_start()
            try:
                resp, steps = (exchange_asgi if asgi else exchange_wsgi)(ctx, app, req, knobs, state)
            finally:
                raw = disksim.audit_stop()
        opens = disksim.counted_opens(raw)
        left = len(ctl.left_open())
    finally:
        ctl.close_all()
    if left:
        ctx.probe('handles_left_open', left)
    if ctl.short_reads:
        ctx.probe('short_reads')
    reads = sum(f.reads for f in ctl.files)
    if reads >= 3:
        ctx.probe('multi_read_body')
    fk = state['fault']
    if fk is None and not ctl.short_reads:
        ctx.probe('fault_free_run')
    ctx.event('req', stack, req.method, req.shown, req.range_val, req.ims_val)
    ctx.event('io', ''.join(ctl.trace), 'fault', fk, 'opens',
              [show(p) for p in opens])
    ctx.event('resp', resp.status, resp.header('content-range'), resp.header('content-length'),
              resp.body.hex()[:160], type(resp.raised).__name__ if resp.raised is not None else '-')
    judge(ctx, cfg, req, resp, opens, fk, stack)
    if not asgi:
        ctx.steps = reads + steps
    ctx.ops_done = 1 if resp.status is not None else 0
    ctx.sched_key = '%s|%s|%s' % (fk, ''.join(ctl.trace), state['sched'])
    ctx.nontrivial = bool(ctx.ops_done and (fk is not None or ctl.short_reads or reads >= 2))
