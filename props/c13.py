"""C13 -- multipart forms parse to exactly the encoded parts, however consumed
(DESIGN section 4, C13).

One run = one form from the reference encoder (models/multipart_codec.py) x
one consumption plan x limits near the form's own sizes x reader chunk sizes x
transport chunking, executed through a real falcon.App (fake WSGI server) AND a
real falcon.asgi.App (fake ASGI server on the SimLoop) on the same bytes.
Fault sweep: truncation at every transport chunk edge (http.disconnect / early
EOF on wsgi.input) or one single-byte corruption (flip / delete / insert).
"""
import io
import json

import falcon
import falcon.asgi
import falcon.asgi.reader as areader
import falcon.util.reader as sreader

from detsim.asgi_sim import Conn, HttpMonitor, http_scope
from detsim.core import HarnessError
from detsim.simloop import Env, SimBudgetExceeded, SimLoop
from detsim.wsgi_sim import SimInput, WsgiExchange, make_environ
from models import multipart_codec as mc

PROPERTY = 'C13'
LEVEL = 'exploration'
RUNS = {'quick': 12000, 'thorough': 200000}
SWEEP = True
SWEEP_CAP = {'quick': 24, 'thorough': 64}
BATCH = 100
BATCH_TIMEOUT = 180      # a worker spinning inside synchronous Falcon code is a HARNESS-ERROR after 3 min
RULE = ('one workload = one reference-encoded form (0-5 parts, boundary 1-70 chars, names/filenames plain '
        'or RFC 5987, contents biased to CR/LF/dashes/delimiter prefixes and look-alikes, optional '
        'preamble/epilogue/final CRLF) x per-part consumption plan (skip, partial/looped/full stream '
        'reads, get_data, get_text, get_media, read_until, iteration/pipe, exhaust, abandon after part j) '
        'x one limit at threshold-1 .. threshold+3 x reader chunk sizes (sync and async) from the '
        'delimiter length up x transport chunking down to 1 byte, run through falcon.App and '
        'falcon.asgi.App on the same bytes; its fault sweep = one extra evaluation per truncation point '
        '(every ASGI event edge, mirrored as early EOF on wsgi.input) or per sampled single-byte '
        'corruption (flip/delete/insert; every position when the body is small); non-trivial = the '
        'responder saw >=1 part and (a fault fired or the body needed >=2 transport chunks); distinct = '
        'distinct (workload+fault, schedule) pairs')
COMPONENTS = {
    'real': ['falcon.App / falcon.asgi.App request path, Request.get_media()',
             'falcon.media.multipart (MultipartFormHandler, MultipartForm, BodyPart)',
             'falcon.asgi.multipart', 'falcon.util.reader.BufferedReader', 'falcon.asgi.reader.BufferedReader',
             'falcon.stream.BoundedStream / falcon.asgi.stream.BoundedStream', 'JSON / URL-encoded part handlers'],
    'stub': ['reference encoder and flat reference parser (models.multipart_codec)',
             'wsgi.input (detsim.wsgi_sim.SimInput, short reads, early EOF)',
             'ASGI server/client (detsim.asgi_sim.Conn)', 'event loop scheduler',
             'responder executing the consumption plan'],
}
EXPECTED_PROBES = ('delim_straddles_event', 'one_byte_events', 'chunk_size_min', 'chunk_size_default',
                   'limit_count', 'limit_buffer', 'limit_headers', 'limit_error_expected', 'truncated',
                   'corrupt_flip', 'corrupt_delete', 'corrupt_insert', 'ext_filename', 'boundary_len_1',
                   'boundary_len_70', 'zero_parts', 'preamble', 'epilogue', 'no_final_crlf', 'abandon',
                   'lookalike_in_content', 'parse_error_seen', 'ref_ambiguous', 'ref_closed_after_corruption',
                   'wsgi_short_reads', 'scan_to_end', 'content_ends_with_delim_prefix')
ASSUMPTIONS = (
    'header size limit: size = bytes between the delimiter line and the blank line, terminators excluded '
    '(pinned by tests/test_media_multipart.py::test_headers_edge_cases); error iff size > limit',
    'buffer size limit applies to get_data()/get_text() only; error iff len(content) > limit',
    'part count limit: error iff parts > limit > 0 (0 = unlimited), raised when part limit+1 is reached',
    'plain name/filename values never contain a double quote, backslash, CR, LF or edge whitespace '
    '(quoted-pair handling is outside the workload); ext-values follow RFC 5987',
    'no content starts with dash-boundary (RFC 2046: the CRLF before a delimiter belongs to it, so such a '
    'part would be ambiguous)',
    'after a fault a 4xx HTTPError is always acceptable; parts are compared with the flat reference parser '
    'only where every reading of the RFCs gives the same parts',
    'get_media() of a part is compared with the same media handler applied to the reference content bytes',
)

CRLF = b'\r\n'
UNTIL_DELIMS = [b'\n', b'\r\n', b'-', b'--', b'\r']
NOVAL = '<noval>'

CTYPES = [None, 'text/plain', 'text/plain; charset=utf-8', 'text/plain; charset=latin-1',
          'text/plain; charset=ascii', 'text/plain;charset=UTF-8', 'text/plain; charset="utf-8"',
          'text/plain; charset=x-sim-unknown', 'application/json', 'application/x-www-form-urlencoded',
          'application/octet-stream', 'application/json; charset=utf-8']
CT_WEIGHTS = [4, 2, 2, 2, 1, 1, 1, 1, 4, 3, 2, 1]
MEDIA_TYPES = ('application/json', 'application/x-www-form-urlencoded')

NAME_PIECES = ['a', 'field', 'x-1', 'file.txt', 'é', '€', '名', 'Å', '\U0001d7cf',
               '.hid', 'a b', 'semi;colon', 'eq=x', "it's", '%22', 'a/b', '..', 'UP', '_', '(1)', ',',
               '*', '?', 'tar.gz']
EXT_PIECES = ['"', '\\', ' lead', 'new\nline', 'trail ', '100%']
BCHARS_NO_COMMA = mc.BCHARS_NOSPACE.replace(b',', b'')
FLIP_BYTES = b'\r\n- :;"=a\x00\xff\t\'*'


# ---------------------------------------------------------------------------
# workload
# ---------------------------------------------------------------------------
def gen_boundary(ch):
    k = ch.weighted([6, 3, 1, 1], 'b_len_kind')
    if k == 0:
        n = 1 + ch.draw(6, 'b_len')
    elif k == 1:
        n = 7 + ch.draw(24, 'b_len')
    elif k == 2:
        n = 31 + ch.draw(40, 'b_len')
    else:
        n = 70
    a = ch.weighted([3, 3, 3, 2], 'b_alpha')
    alpha = [b'-', b'-a', b'ab0', BCHARS_NO_COMMA + b' '][a]
    b = bytearray(ch.bytes_from(alpha, n, 'b_char'))
    if a == 3 and ch.draw(12, 'b_comma') == 11:
        # legal bchar, but see known finding "boundary with a comma -> 415"
        b[ch.draw(n, 'b_comma_at')] = 0x2c
    if b[-1:] == b' ':
        b[-1] = 0x78
    return bytes(b)


def gen_content(ch, boundary, ctype, ctx):
    dash = b'--' + boundary
    delim = CRLF + dash
    main = (ctype or 'text/plain').split(';')[0]
    if main == 'application/json' and ch.draw(2, 'json_valid'):
        t = ch.draw(5, 'json_tpl')
        inner = dash[:12].decode('ascii')
        c = [b'{"k": "%s"}' % inner.encode(), b'[1, 2]', b'"-"', b' \r\n{"a":\r\n "\\r\\n%s"}' % inner.encode(),
             b'{"a": [true, null, -1]}\r\n'][t]
        return mc.sanitize(c, delim, CRLF)
    if main == 'application/x-www-form-urlencoded' and ch.draw(2, 'form_valid'):
        t = ch.draw(4, 'form_tpl')
        c = [b'a=1&b=2', b'k=--' + boundary[:8].replace(b' ', b'+'), b'k=%0D%0A--&k=-&e=', b'a=1&a=2&b'][t]
        return mc.sanitize(c, delim, CRLF)
    n_tok = ch.small(9, 'n_tok')
    out = b''
    look = False
    for _ in range(n_tok):
        k = ch.weighted([6, 3, 4, 2, 2, 1, 1, 2, 1], 'tok')
        if k == 0:
            out += ch.bytes_from(b'\r\n-a' + boundary[:1], 1, 'c_byte')
        elif k == 1:
            out += CRLF
        elif k == 2:
            out += delim[:1 + ch.draw(len(delim) - 1, 'pfx')]      # proper prefix of the delimiter
        elif k == 3:
            out += b'\n' + dash                                     # LF without CR: look-alike
            look = True
        elif k == 4:
            out += b'x' + dash + (b'--' if ch.draw(2, 'lk_close') else b'')
            look = True
        elif k == 5:
            out += b'\r' + dash
            look = True
        elif k == 6:
            out += CRLF + CRLF
        elif k == 8:
            out += [b'\xe9', b'\xc3\xa9', b'\x00', b'\xff\xfe'][ch.draw(4, 'c_bin')]     # charset matters
        else:
            out += delim[:-1]                                       # one byte short of the delimiter
    out = out[:40]
    out = mc.sanitize(out, delim, CRLF)
    if look and dash in out:
        ctx.probe('lookalike_in_content')
    return out


def gen_name(ch, pieces, label):
    n = 1 + ch.draw(2, label + '_n')
    return ''.join(pieces[ch.draw(len(pieces), label)] for _ in range(n))


def gen_part(ch, boundary, ctx):
    name = gen_name(ch, NAME_PIECES, 'name')
    if ch.draw(8, 'name_is_boundary') == 7:
        name = '--' + boundary.decode('ascii').strip()
    opts = {}
    fm = ch.weighted([5, 3, 3, 2], 'fn_mode')
    fn_mode = ['none', 'plain', 'ext', 'both'][fm]
    filename = None
    if fn_mode == 'plain':
        filename = '' if ch.draw(8, 'fn_empty') == 7 else gen_name(ch, NAME_PIECES, 'fn')
    elif fn_mode in ('ext', 'both'):
        filename = gen_name(ch, NAME_PIECES + EXT_PIECES, 'fnx')
        ctx.probe('ext_filename')
        cs = ch.draw(4, 'ext_cs')
        try:
            filename.encode('iso-8859-1')
            latin = True
        except UnicodeEncodeError:
            latin = False
        opts['ext_charset'] = ['UTF-8', 'utf-8', 'ISO-8859-1', 'iso-8859-1'][cs] if latin else ['UTF-8', 'utf-8'][cs % 2]
        lg = ch.weighted([6, 2, 1], 'ext_lang')
        if lg:
            opts['ext_lang'] = ['en', 'en-US'][lg - 1]
        if fn_mode == 'both':
            opts['fallback'] = 'fallback.bin'
            if ch.draw(2, 'ext_first'):
                opts['ext_first'] = 1
    ctype = CTYPES[ch.weighted(CT_WEIGHTS, 'ctype')]
    hv = ch.draw(16, 'hdr_var')
    if hv & 1:
        opts['ct_first'] = 1
    if hv & 2 and ch.draw(2, 'bare'):
        opts['bare_name'] = 1
        opts['bare_filename'] = 1
    if hv & 4:
        opts['case'] = ['lower', 'upper'][ch.draw(2, 'case')]
    if hv & 8:
        if ch.draw(2, 'cte'):
            opts['cte'] = 1
        else:
            opts['extra'] = 1 + ch.draw(20, 'extra')
    content = gen_content(ch, boundary, ctype, ctx)
    return mc.FormPart(name, filename, fn_mode, ctype, content, opts)


PATTERNS = ['skip', 'read_n', 'read2', 'full', 'loop', 'data', 'data2', 'text', 'media', 'until', 'pipe',
            'exhaust']
PAT_WEIGHTS = [2, 3, 2, 3, 2, 3, 1, 3, 3, 4, 2, 1]


def gen_pattern(ch, part):
    k = PATTERNS[ch.weighted(PAT_WEIGHTS, 'pattern')]
    n = len(part.content) if part is not None else 8
    if k == 'media' and (part is None or (part.ctype or '').split(';')[0] not in MEDIA_TYPES):
        k = 'text'
    if k == 'read_n':
        return ('read_n', ch.draw(n + 3, 'size'))
    if k == 'read2':
        return ('read2', ch.draw(n + 2, 'size'), ch.draw(n + 2, 'size2'))
    if k == 'loop':
        return ('loop', 1 + ch.draw(7, 'size'))
    if k in ('data', 'text'):
        return (k, ch.draw(2, 'via_property'))
    if k == 'until':
        size = -1 if ch.draw(3, 'until_sized') < 2 else ch.draw(n + 2, 'size')
        return ('until', ch.draw(len(UNTIL_DELIMS), 'until_d'), size, ch.draw(2, 'until_rest'))
    return (k,)


class Workload(object):
    pass


def gen_workload(ctx):
    ch = ctx.ch
    w = Workload()
    w.boundary = gen_boundary(ch)
    nb = len(w.boundary)
    if nb == 1:
        ctx.probe('boundary_len_1')
    elif nb == 70:
        ctx.probe('boundary_len_70')
    n = ch.small(5, 'n_parts')
    if ch.draw(3, 'more_parts') == 2:
        n = min(5, n + 2)
    w.parts = [gen_part(ch, w.boundary, ctx) for _ in range(n)]
    if not n:
        ctx.probe('zero_parts')
    dash = b'--' + w.boundary
    delim = CRLF + dash
    w.dlen = len(delim)
    pre = ch.weighted([5, 2, 1], 'preamble')
    w.preamble = None
    w.lead_crlf = False
    if pre == 1:
        k = ch.draw(4, 'pre_kind')
        raw = [b'This is the preamble.', b'-', dash[:-1] + CRLF + b'--', b''][k]
        if k == 0 and ch.draw(2, 'pre_pfx'):
            raw += CRLF + dash[:-1]
        w.preamble = mc.sanitize(raw, dash)
        ctx.probe('preamble')
    elif pre == 2:
        w.lead_crlf = True
    epi = ch.weighted([5, 2, 2], 'epilogue')
    w.epilogue = None
    w.final_crlf = True
    if epi == 1:
        k = ch.draw(4, 'epi_kind')
        w.epilogue = [b'epilogue', delim + CRLF + b'X: y' + CRLF + CRLF + b'z' + delim + b'--', b'', b'--'][k]
        ctx.probe('epilogue')
    elif epi == 2:
        w.final_crlf = False
        ctx.probe('no_final_crlf')
    w.body, w.layout = mc.encode_form(w.parts, w.boundary, w.preamble, w.lead_crlf, w.epilogue, w.final_crlf)
    w.ctype = mc.content_type_value(w.boundary, quoted=ch.draw(4, 'b_quoted') == 3, extra=ch.draw(4, 'ct_extra'))

    # consumption plan
    w.patterns = [gen_pattern(ch, p) for p in w.parts] + [('full',)]
    w.abandon = None
    if n and ch.draw(4, 'abandon') == 3:
        w.abandon = ch.draw(n, 'abandon_at')
        ctx.probe('abandon')

    # limits near the form's own sizes
    w.limit = None
    w.max_count = 64
    w.max_buf = 1024 * 1024
    w.max_hdr = 8192
    lm = ch.weighted([5, 2, 2, 2], 'limit_mode')
    delta = ch.draw(5, 'limit_delta') - 1      # threshold-1 .. threshold+3
    if lm == 1:
        w.limit = 'count'
        w.max_count = max(0, n + delta)
    elif lm == 2 and n:
        w.limit = 'buffer'
        t = ch.draw(n, 'limit_target')
        if w.patterns[t][0] not in ('data', 'data2', 'text') or (
                w.patterns[t][0] == 'text' and mc.text_of(w.parts[t].ctype, b'')[0] == 'none'):
            w.patterns[t] = ('data', ch.draw(2, 'via_property'))
        if w.abandon is not None and w.abandon < t:
            w.abandon = None
        w.max_buf = max(0, len(w.parts[t].content) + delta)
    elif lm == 3 and n:
        w.limit = 'headers'
        t = ch.draw(n, 'limit_target')
        w.max_hdr = max(1, len(w.parts[t].headers_block) + delta)
    if w.limit:
        ctx.probe('limit_' + w.limit)

    # reader chunk sizes ("buggify" knobs): smallest legal = delimiter length
    def cs():
        k = ch.weighted([3, 4, 2], 'cs_kind')
        if k == 0:
            return w.dlen
        if k == 1:
            return w.dlen + ch.draw(17, 'cs_delta')
        return None
    w.cs_sync = cs()
    w.cs_async = cs()
    if w.cs_sync == w.dlen or w.cs_async == w.dlen:
        ctx.probe('chunk_size_min')
    if w.cs_sync is None or w.cs_async is None:
        ctx.probe('chunk_size_default')

    # transport
    L = len(w.body)
    tm = ch.weighted([2, 5, 3], 'chunking')
    if tm == 0:
        w.cuts = []
    elif tm == 1:
        k = 1 + ch.draw(6, 'n_cuts')
        w.cuts = sorted(ch.draw(L + 1, 'cut') for _ in range(k))
    else:
        s = [1, 2, 3, 5, 7, 11][ch.draw(6, 'step')]
        while L // s > 130:
            s += 3
        w.cuts = list(range(s, L, s))
        if s == 1:
            ctx.probe('one_byte_events')
    w.omit_more = bool(ch.draw(2, 'omit_more'))
    w.omit_empty_body = bool(ch.draw(2, 'omit_empty_body'))
    w.asgi_cl = ch.draw(4, 'asgi_cl') != 3
    w.recv_suspends = bool(ch.draw(2, 'recv_suspends'))
    w.predeliver = ch.draw(3, 'predeliver') == 0
    w.short_reads = bool(ch.draw(2, 'short_reads'))
    # the responder keeps the parts and reads name / filename / content type only after the loop
    w.late_fields = ch.draw(4, 'late_fields') == 3
    w.pipelined = b''
    if ch.draw(4, 'pipelined') == 3:
        w.pipelined = delim + CRLF + b'Content-Disposition: form-data; name=next' + CRLF + CRLF + b'N' + delim + b'--'
    return w


def chunks_of(body, cuts):
    n = len(body)
    offs = [0] + [min(c, n) for c in cuts] + [n]
    return [body[a:b] for a, b in zip(offs, offs[1:])]


def gen_candidates(ctx, w):
    """Fault opportunities of this workload, in sweep order (workload draws)."""
    ch = ctx.ch
    cap = SWEEP_CAP.get(ctx.tier, 24)
    mode = ch.weighted([4, 3, 3], 'fault_mode')
    cands = []
    if mode == 1:
        n_ev = len(w.cuts) + 1
        idx = list(range(n_ev))
        if n_ev > cap:
            # spread the cap over the body, always keeping the last few edges
            step = n_ev / float(cap - 4)
            idx = sorted(set([int(i * step) for i in range(cap - 4)] + list(range(n_ev - 4, n_ev))))
        cands = [('truncate', i, 0) for i in idx]
    elif mode == 2:
        L = len(w.body)
        if L <= cap:
            pos = list(range(L))
        else:
            structural = [r for r in w.layout.regions if r[2] in ('delim', 'headers', 'close')]
            pos = []
            for _ in range(cap):
                if structural and ch.draw(5, 'c_where') < 3:
                    a, b, _k = structural[ch.draw(len(structural), 'c_region')]
                    # a byte or two into the content/next region as well
                    pos.append(min(L - 1, a + ch.draw(b - a + 2, 'c_off')))
                else:
                    pos.append(ch.draw(L, 'c_pos'))
        for p in pos:
            kind = ['flip', 'delete', 'insert'][ch.draw(3, 'c_kind')]
            cands.append((kind, p, FLIP_BYTES[ch.draw(len(FLIP_BYTES), 'c_byte')]))
    return cands


def apply_corruption(body, kind, pos, byte):
    if kind == 'flip':
        if body[pos] == byte:
            byte = body[pos] ^ 0x20
        return body[:pos] + bytes([byte]) + body[pos + 1:]
    if kind == 'delete':
        return body[:pos] + body[pos + 1:]
    return body[:pos] + bytes([byte]) + body[pos:]


# ---------------------------------------------------------------------------
# expectations
# ---------------------------------------------------------------------------
_JSON = falcon.media.JSONHandler()
_FORM = falcon.media.URLEncodedFormHandler()


def classify(ex):
    if isinstance(ex, falcon.HTTPError):
        try:
            code = int(str(ex.status)[:3])
        except ValueError:
            code = 0
        return ('http', code, type(ex).__name__)
    return ('other', None, type(ex).__name__)


def is_4xx(cls):
    return cls[0] == 'http' and 400 <= cls[1] <= 499


def ref_media(ctype, content):
    main = (ctype or 'text/plain').split(';')[0].strip()
    h = _JSON if main == 'application/json' else _FORM if main == 'application/x-www-form-urlencoded' else None
    if h is None:
        return ('unsure', None)
    try:
        return ('ok', h.deserialize(io.BytesIO(content), ctype, len(content)))
    except falcon.HTTPError as ex:
        return ('error', classify(ex))


def expect_part(rp, pat, max_buf):
    """What the responder has to observe for reference part `rp` consumed with
    pattern `pat`: dict(pieces | joined, val, err)."""
    C = rp.content
    k = pat[0]
    e = {'pieces': None, 'joined': None, 'val': NOVAL, 'err': None, 'scan_to_end': False}
    if k == 'skip':
        e['pieces'] = []
    elif k == 'read_n':
        e['pieces'] = [C[:pat[1]]]
    elif k == 'read2':
        e['pieces'] = [C[:pat[1]], C[pat[1]:pat[1] + pat[2]]]
    elif k == 'full':
        e['pieces'] = [C]
    elif k in ('loop', 'pipe'):
        e['joined'] = C
    elif k in ('data', 'data2'):
        if len(C) > max_buf:
            e['err'] = 'limit.buffer'
        else:
            e['pieces'] = [C, C] if k == 'data2' else [C]
    elif k == 'text':
        t = mc.text_of(rp.ctype, C)
        if t[0] == 'none':
            e['val'] = None
            e['pieces'] = []
        elif t[0] == 'unsure':
            e['err'] = 'unsure'
        elif len(C) > max_buf:
            e['err'] = 'limit.buffer'
        elif t[0] == 'error':
            e['err'] = 'text'
        else:
            e['val'] = t[1]
            e['pieces'] = []
    elif k == 'media':
        m = ref_media(rp.ctype, C)
        if m[0] == 'ok':
            e['val'] = m[1]
            e['pieces'] = []
        elif m[0] == 'error':
            e['err'] = 'media'
        else:
            e['err'] = 'unsure'
    elif k == 'until':
        d = UNTIL_DELIMS[pat[1]]
        idx = C.find(d)
        end = len(C) if idx < 0 else idx
        if pat[2] >= 0 and pat[2] < end:
            end = pat[2]
        if idx < 0:
            e['scan_to_end'] = True      # delimited scan that never meets its delimiter
        e['pieces'] = [C[:end]] + ([C[end:]] if pat[3] else [])
    elif k == 'exhaust':
        e['pieces'] = [b'']
    return e


def expect_valid(w):
    """Simulate the responder on the encoder's own parts -> (records, terminal)."""
    recs = []
    for i, p in enumerate(w.parts):
        if len(p.headers_block) > w.max_hdr:
            return recs, ('error', 'limit.headers')
        if w.max_count > 0 and i >= w.max_count:
            return recs, ('error', 'limit.count')
        recs.append(expect_part(p, w.patterns[i], w.max_buf))
        if w.abandon == i:
            return recs, ('abandoned',)
    return recs, ('done',)


# ---------------------------------------------------------------------------
# responders (record only; never raise an oracle through Falcon: R7)
# ---------------------------------------------------------------------------
def _hdr_fields(part, rec):
    for f in ('name', 'filename', 'content_type', 'secure_filename'):
        try:
            rec[f] = ('ok', getattr(part, f))
        except Exception as ex:
            rec[f] = ('err', classify(ex))


def _new_rec(i, pat):
    return {'i': i, 'pat': pat, 'pieces': [], 'val': NOVAL, 'exc': None, 'done': False, 'runaway': False}


def consume_sync(part, pat, rec, cap):
    s = part.stream
    k = pat[0]
    pieces = rec['pieces']
    if k == 'read_n':
        pieces.append(s.read(pat[1]))
    elif k == 'read2':
        pieces.append(s.read(pat[1]))
        pieces.append(s.read(pat[2]))
    elif k == 'full':
        pieces.append(s.read())
    elif k == 'loop':
        while True:
            c = s.read(pat[1])
            if not c:
                break
            pieces.append(c)
            if len(pieces) > cap:
                rec['runaway'] = True
                break
    elif k == 'data':
        pieces.append(part.data if pat[1] else part.get_data())
    elif k == 'data2':
        pieces.append(part.get_data())
        pieces.append(part.data)
    elif k == 'text':
        rec['val'] = part.text if pat[1] else part.get_text()
    elif k == 'media':
        rec['val'] = part.get_media()
    elif k == 'until':
        pieces.append(s.read_until(UNTIL_DELIMS[pat[1]], pat[2]))
        if pat[3]:
            pieces.append(s.read())
    elif k == 'pipe':
        buf = io.BytesIO()
        s.pipe(buf)
        pieces.append(buf.getvalue())
    elif k == 'exhaust':
        s.exhaust()
        pieces.append(s.read())


async def consume_async(part, pat, rec, cap):
    s = part.stream
    k = pat[0]
    pieces = rec['pieces']
    if k == 'read_n':
        pieces.append(await s.read(pat[1]))
    elif k == 'read2':
        pieces.append(await s.read(pat[1]))
        pieces.append(await s.read(pat[2]))
    elif k == 'full':
        pieces.append(await s.read())
    elif k == 'loop':
        while True:
            c = await s.read(pat[1])
            if not c:
                break
            pieces.append(c)
            if len(pieces) > cap:
                rec['runaway'] = True
                break
    elif k == 'data':
        pieces.append((await part.data) if pat[1] else (await part.get_data()))
    elif k == 'data2':
        pieces.append(await part.get_data())
        pieces.append(await part.data)
    elif k == 'text':
        rec['val'] = (await part.text) if pat[1] else (await part.get_text())
    elif k == 'media':
        rec['val'] = await part.get_media()
    elif k == 'until':
        pieces.append(await s.read_until(UNTIL_DELIMS[pat[1]], pat[2]))
        if pat[3]:
            pieces.append(await s.read())
    elif k == 'pipe':
        async for chunk in s:
            pieces.append(chunk)
            if len(pieces) > cap:
                rec['runaway'] = True
                break
    elif k == 'exhaust':
        await s.exhaust()
        pieces.append(await s.read())


class _ReadBudget(object):
    """Read-call budget on the source of a synchronous part stream (its parent
    reader): a reader spinning on a source that keeps answering b'' makes no
    wsgi.input call, so SimInput's own budget never sees it. BaseException so
    that Falcon cannot swallow it (R7)."""
    __slots__ = ('fn', 'left')

    def __init__(self, fn, budget):
        self.fn = fn
        self.left = budget

    def __call__(self, *a, **kw):
        self.left -= 1
        if self.left < 0:
            raise SimBudgetExceeded('part stream source called more often than the budget allows')
        return self.fn(*a, **kw)


class _SyncRes(object):
    fn = None

    def on_post(self, req, resp):
        self.fn(req, resp)


class _AsyncRes(object):
    fn = None

    async def on_post(self, req, resp):
        await self.fn(req, resp)


_APPS = {}


def _get_app(kind, fn):
    """The two applications are built once per process (building an App and
    compiling its router costs more than a whole run); everything a run can
    change -- the responder body and the three parse options -- is set anew
    for every run."""
    ent = _APPS.get(kind)
    if ent is None:
        if kind == 'wsgi':
            app, res = falcon.App(), _SyncRes()
        else:
            app, res = falcon.asgi.App(), _AsyncRes()
        app.add_route('/f', res)
        ent = _APPS[kind] = (app, res)
    ent[1].fn = fn
    return ent[0]


def set_options(app, w):
    po = app.req_options.media_handlers[falcon.MEDIA_MULTIPART].parse_options
    po.max_body_part_count = w.max_count
    po.max_body_part_buffer_size = w.max_buf
    po.max_body_part_headers_size = w.max_hdr


def run_wsgi(ctx, w, data, cl, truncated):
    obs = {'records': [], 'terminal': None, 'invoked': False, 'hang': None}
    pats = w.patterns
    cap = len(data) + 16

    def on_post(req, resp):
        obs['invoked'] = True
        recs = obs['records']
        later = []
        try:
            form = req.get_media()
            i = 0
            for part in form:
                pat = pats[i] if i < len(pats) else ('full',)
                rec = _new_rec(i, pat)
                recs.append(rec)
                if w.late_fields:
                    later.append((part, rec))
                else:
                    _hdr_fields(part, rec)
                rf = getattr(part.stream, '_read_func', None)
                if rf is not None:
                    part.stream._read_func = _ReadBudget(rf, 40 * cap)
                try:
                    consume_sync(part, pat, rec, cap)
                    rec['done'] = True
                except Exception as ex:
                    rec['exc'] = classify(ex)
                if w.abandon == i or i > 40:
                    obs['terminal'] = ('abandoned',)
                    break
                i += 1
            else:
                obs['terminal'] = ('done',)
        except Exception as ex:
            obs['terminal'] = ('error', classify(ex))
        # an application may keep the parts and look at their names only after the loop
        for part, rec in later:
            _hdr_fields(part, rec)

    app = _get_app('wsgi', on_post)
    set_options(app, w)
    if w.short_reads:
        ctx.ch.enable_fault('wsgi_short_read', 1, 2)
        ctx.probe('wsgi_short_reads')
    inp = SimInput(ctx, data, b'' if truncated else w.pipelined, short_reads=w.short_reads, limit=cl,
                   max_calls=6000)
    env = make_environ(method='POST', path='/f', body_input=inp, content_length=cl, content_type=w.ctype)
    ex = WsgiExchange(ctx)
    try:
        if ex.call(app, env):
            ex.consume()
    except SimBudgetExceeded as bex:
        obs['hang'] = 'read-call budget exceeded (%s)' % (bex,)
    if ex.app_exc is not None:
        obs['escaped'] = classify(ex.app_exc)
    obs['calls'] = inp.calls
    obs['overread'] = inp.overread
    return obs


class _Env(Env):
    def __init__(self):
        self.conn = None

    def actions(self):
        return self.conn.actions(3, 3, 3)


class _Sim(object):
    def __init__(self, loop, ch, ctx):
        self.loop, self.chooser, self.ctx = loop, ch, ctx

    def note(self, name):
        self.ctx.probe(name)


def run_asgi(ctx, w, chunks, cl, disconnect):
    ch = ctx.ch
    obs = {'records': [], 'terminal': None, 'invoked': False, 'hang': None}
    pats = w.patterns
    total = sum(len(c) for c in chunks)
    cap = total + 16
    events = []
    for i, c in enumerate(chunks):
        ev = {'type': 'http.request', 'body': c, 'more_body': True}
        if c == b'' and w.omit_empty_body:
            del ev['body']
        events.append(ev)
    if disconnect:
        events.append({'type': 'http.disconnect'})
    else:
        if not events:
            events.append({'type': 'http.request', 'body': b''})
        events[-1]['more_body'] = False
        if w.omit_more:
            del events[-1]['more_body']

    async def on_post(req, resp):
        obs['invoked'] = True
        recs = obs['records']
        later = []
        try:
            form = await req.get_media()
            i = 0
            async for part in form:
                pat = pats[i] if i < len(pats) else ('full',)
                rec = _new_rec(i, pat)
                recs.append(rec)
                if w.late_fields:
                    later.append((part, rec))
                else:
                    _hdr_fields(part, rec)
                try:
                    await consume_async(part, pat, rec, cap)
                    rec['done'] = True
                except Exception as ex:
                    rec['exc'] = classify(ex)
                if w.abandon == i or i > 40:
                    obs['terminal'] = ('abandoned',)
                    break
                i += 1
            else:
                obs['terminal'] = ('done',)
        except Exception as ex:
            obs['terminal'] = ('error', classify(ex))
        for part, rec in later:
            _hdr_fields(part, rec)

    app = _get_app('asgi', on_post)
    set_options(app, w)
    env = _Env()
    loop = SimLoop(ch, env, max_steps=30000)
    sim = _Sim(loop, ch, ctx)
    hdrs = [('Content-Type', w.ctype)]
    if cl is not None:
        hdrs.append(('Content-Length', str(cl)))
    scope = http_scope(method='POST', path='/f', headers=hdrs)
    conn = Conn(sim, 'http', scope, events, HttpMonitor(), recv_suspends=w.recv_suspends, lost_mode='drop')
    env.conn = conn
    if w.predeliver:
        while conn.script:
            conn.deliver()
    result = {}

    async def driver():
        try:
            await app(scope, conn.receive, conn.send)
        except Exception as ex:
            result['exc'] = ex

    finished = False
    try:
        task = loop.run_main(driver())
        finished = task.done()
    except SimBudgetExceeded as bex:
        obs['hang'] = 'step budget exceeded (%s)' % (bex,)
        finished = True
    obs['steps'] = loop.steps
    obs['sig'] = loop.sig()
    obs['loop_errors'] = list(loop.errors)
    try:
        loop.drain()
    finally:
        loop.close()
    if not finished:
        last = obs['records'][-1]['pat'] if obs['records'] else None
        obs['hang'] = 'quiescent with the responder blocked (part %d, pattern %r)' % (
            len(obs['records']) - 1, last)
    if 'exc' in result:
        obs['escaped'] = classify(result['exc'])
    obs['pulled'] = len(conn.pulled)
    return obs


# ---------------------------------------------------------------------------
# oracles
# ---------------------------------------------------------------------------
def _short(b, n=70):
    r = repr(b)
    return r if len(r) <= n else r[:n] + '...'


def _features(w):
    return {'cs_sync': 'min' if w.cs_sync == w.dlen else 'default' if w.cs_sync is None else 'small',
            'cs_async': 'min' if w.cs_async == w.dlen else 'default' if w.cs_async is None else 'small'}


def check_hdr_fields(ctx, oracle, stack, rec, rp, fault, strict):
    """name / filename / content type / secure_filename of one observed part."""
    want = {'name': rp.name, 'filename': rp.filename, 'content_type': rp.content_type}
    for f in ('name', 'filename', 'content_type'):
        st, v = rec[f]
        if st == 'err':
            if is_4xx(v) and not strict:
                continue
            ctx.violate(oracle if is_4xx(v) or strict else 'multipart.error_class',
                        '[%s] part %d: reading .%s raised %s (expected %r); headers %r' % (
                            stack, rec['i'], f, v[2], want[f], _short(rp.headers_block, 200)),
                        stack=stack, field=f, exc=v[2], fault=fault, fn_mode=rp.fn_mode,
                        ext_lang_hyphen='-' in rp.opts.get('ext_lang', ''))
            return False
        if v != want[f]:
            ctx.violate(oracle, '[%s] part %d: .%s == %r, encoded %r; headers %r' % (
                stack, rec['i'], f, v, want[f], _short(rp.headers_block, 200)),
                stack=stack, field=f, fault=fault, fn_mode=rp.fn_mode, ext_lang_hyphen='-' in rp.opts.get('ext_lang', ''))
            return False
    st, v = rec['secure_filename']
    sf = mc.secure_filename(rp.filename)
    if sf is None:
        ok = st == 'err' and is_4xx(v)
    else:
        ok = (st == 'ok' and v == sf) or (not strict and st == 'err' and is_4xx(v))
    if not ok:
        orc = oracle
        if st == 'err' and not is_4xx(v) and not strict:
            orc = 'multipart.error_class'
        ctx.violate(orc, '[%s] part %d: .secure_filename -> %r, reference %r (filename %r)' % (
            stack, rec['i'], (st, v), sf, rp.filename), stack=stack, field='secure_filename', fault=fault,
            fn_mode=rp.fn_mode, ext_lang_hyphen='-' in rp.opts.get('ext_lang', ''))
        return False
    return True


def check_consumption(ctx, oracle, stack, rec, e, rp, fault, strict, w):
    """Content-side observation of one part against expectation `e`.
    strict: valid body (errors must match exactly); otherwise a 4xx is always
    acceptable and a partial (EOF-terminated) reference part relaxes equality
    to 'prefix'."""
    pat = rec['pat']
    sig = dict(stack=stack, pattern=pat[0], fault=fault)
    if e['scan_to_end']:
        sig['scan_to_end'] = True
        ctx.probe('scan_to_end')
    if rec['runaway']:
        ctx.violate('multipart.hang', '[%s] part %d: %r never reached end-of-part (%d pieces)' % (
            stack, rec['i'], pat, len(rec['pieces'])), what='runaway', **sig)
        return False
    exc = rec['exc']
    if exc is not None:
        if not is_4xx(exc):
            ctx.violate('multipart.error_class' if not strict else oracle,
                        '[%s] part %d: %r raised %s (not a 4xx HTTPError)' % (stack, rec['i'], pat, exc[2]),
                        exc=exc[2], field='consume', **sig)
            return False
        if not strict:
            return True
        if e['err'] in ('limit.buffer', 'text', 'media', 'unsure'):
            if e['err'] == 'limit.buffer':
                ctx.probe('limit_error_expected')
            return True
        lim = w.limit == 'buffer' and pat[0] in ('data', 'data2', 'text')
        ctx.violate('multipart.limit.buffer' if lim else oracle,
                    '[%s] part %d: %r raised %s on a valid part (content %d bytes, max_body_part_buffer_size '
                    '%d, content type %r)' % (stack, rec['i'], pat, exc[2], len(rp.content), w.max_buf, rp.ctype),
                    field='unexpected_error', **sig)
        return False
    if not rec['done']:
        return True      # blocked: reported as a hang
    if e['err'] == 'unsure':
        return True
    if e['err'] is not None:
        if not strict:
            return True       # weaker reading after a fault: only values are compared
        lim = e['err'] == 'limit.buffer'
        ctx.violate('multipart.limit.buffer' if lim else oracle,
                    '[%s] part %d: %r returned normally, expected the parse error (%s): content %d bytes, '
                    'max_body_part_buffer_size %d, content type %r, content %s' % (
                        stack, rec['i'], pat, e['err'], len(rp.content), w.max_buf, rp.ctype, _short(rp.content)),
                    field='missing_error', **sig)
        return False
    if e['val'] is not NOVAL:
        if rec['val'] != e['val'] or type(rec['val']) is not type(e['val']):
            ctx.violate(oracle, '[%s] part %d: %r -> %s, reference %s (content %s, type %r)' % (
                stack, rec['i'], pat, _short(rec['val']), _short(e['val']), _short(rp.content), rp.ctype),
                field='value', **sig)
            return False
        return True
    got = rec['pieces']
    joined = b''.join(got)
    partial = rp.partial
    if e['joined'] is not None or partial:
        want = e['joined'] if e['joined'] is not None else b''.join(e['pieces'])
        bad = (not want.startswith(joined)) if partial else (joined != want)
    else:
        want = e['pieces']
        bad = got != want
    if bad:
        ctx.violate(oracle, '[%s] part %d: %r returned %s, reference %s (part content %s%s)' % (
            stack, rec['i'], pat, _short(got, 120), _short(want, 120), _short(rp.content),
            ', ended by end of data' if partial else ''), field='content', **sig)
        return False
    return True


def judge_valid(ctx, stack, obs, w, exp):
    """Valid body, no fault: everything exact."""
    exp_recs, exp_term = exp
    recs = obs['records']
    ft = _features(w)
    cs = ft['cs_' + ('sync' if stack == 'wsgi' else 'async')]
    n = min(len(recs), len(exp_recs))
    for i in range(n):
        rp = w.parts[i]
        if not check_hdr_fields(ctx, 'multipart.parts', stack, recs[i], rp, 'none', True):
            return
        if not check_consumption(ctx, 'multipart.parts', stack, recs[i], exp_recs[i], rp, 'none', True, w):
            return
    term = obs['terminal']
    if term is None:
        return       # blocked / budget: hang verdict
    lim_oracle = 'multipart.limit.' + w.limit if w.limit in ('count', 'headers') else 'multipart.parts'
    hdr_sizes = [len(p.headers_block) for p in w.parts]
    if term[0] == 'error' and (exp_term[0] != 'error' or term[1][:2] != ('http', 400)):
        # an error nobody asked for (or one that is not the parse error)
        is400 = term[1][:2] == ('http', 400)
        ctx.violate(lim_oracle if is400 else 'multipart.parts',
                    '[%s] iteration raised %s after %d part(s) on a valid form of %d part(s) '
                    '(max_body_part_count %d, max_body_part_headers_size %d, header sizes %r, request '
                    'Content-Type %r)' % (stack, term[1][2], len(recs), len(w.parts), w.max_count, w.max_hdr,
                                          hdr_sizes, w.ctype),
                    stack=stack, what='unexpected_error', exc=term[1][2], cs=cs,
                    after=recs[-1]['pat'][0] if recs else 'start', boundary_comma=b',' in w.boundary)
        return
    if exp_term[0] == 'error':
        ctx.probe('limit_error_expected')
        if len(recs) == len(exp_recs) and term[0] == 'error':
            return
        ctx.violate(lim_oracle, '[%s] expected the parse error (%s) when reaching part %d; observed %d part(s) '
                    'and outcome %r (max_body_part_count %d, max_body_part_headers_size %d, header sizes %r)' % (
                        stack, exp_term[1], len(exp_recs), len(recs), term, w.max_count, w.max_hdr, hdr_sizes),
                    stack=stack, what='missing_or_misplaced_error', cs=cs)
        return
    if len(recs) != len(exp_recs) or term != exp_term:
        ctx.violate('multipart.parts', '[%s] iteration yielded %d part(s) and ended %r; encoded %d part(s), '
                    'expected %d and %r' % (stack, len(recs), term, len(w.parts), len(exp_recs), exp_term),
                    stack=stack, field='count', fault='none', cs=cs)


def judge_faulted(ctx, stack, obs, w, ref, fault):
    """Corrupted / truncated body: 4xx or a normal result, never another
    exception; no silently wrong parts where the flat parser is unambiguous."""
    recs = obs['records']
    term = obs['terminal']
    amb_seen = False
    for i, rec in enumerate(recs):
        if i >= len(ref.parts):
            if not ref.ambig_tail and not amb_seen:
                ctx.violate('multipart.silent_wrong', '[%s] part %d yielded (%r, content %s) but the flat parser '
                            'finds only %d part(s) (%s: %s)' % (
                                stack, i, rec['name'], _short(b''.join(rec['pieces'])), len(ref.parts),
                                ref.status, ref.reason),
                            stack=stack, what='extra_part', fault=fault)
                return
            # still subject to the exception-class rule
            rp = None
        else:
            rp = ref.parts[i]
            if rp.ambig:
                amb_seen = True
        # exception classes first (hold for every part, ambiguous or not)
        for f in ('name', 'filename', 'content_type', 'secure_filename'):
            st, v = rec[f]
            if st == 'err' and not is_4xx(v):
                ctx.violate('multipart.error_class', '[%s] part %d: reading .%s raised %s; header block %s' % (
                    stack, i, f, v[2], _short(rp.headers_block if rp else b'?', 200)),
                    stack=stack, field=f, exc=v[2], fault=fault)
                return
        if rec['exc'] is not None and not is_4xx(rec['exc']):
            ctx.violate('multipart.error_class', '[%s] part %d: %r raised %s (not a 4xx HTTPError)' % (
                stack, i, rec['pat'], rec['exc'][2]), stack=stack, field='consume', exc=rec['exc'][2],
                pattern=rec['pat'][0], fault=fault)
            return
        if rp is None or amb_seen:
            continue
        if not rp.hdr_ambig:
            if not check_hdr_fields(ctx, 'multipart.silent_wrong', stack, rec, rp, fault, False):
                return
        e = expect_part(rp, rec['pat'], w.max_buf)
        if rp.hdr_ambig and rec['pat'][0] in ('text', 'media'):
            continue
        if not check_consumption(ctx, 'multipart.silent_wrong', stack, rec, e, rp, fault, False, w):
            return
    if term is None:
        return
    if term[0] == 'error':
        ctx.probe('parse_error_seen')
        if not is_4xx(term[1]):
            ctx.violate('multipart.error_class', '[%s] iteration raised %s after %d part(s) (flat parser: %s %s)' % (
                stack, term[1][2], len(recs), ref.status, ref.reason),
                stack=stack, field='iterate', exc=term[1][2], fault=fault)
        return
    if term[0] == 'done' and not amb_seen and not ref.ambig_tail:
        if ref.status == 'closed' and len(recs) < len(ref.parts):
            ctx.violate('multipart.silent_wrong', '[%s] iteration ended normally after %d part(s); the flat parser '
                        'finds %d' % (stack, len(recs), len(ref.parts)), stack=stack, what='missing_parts',
                        fault=fault)
        elif ref.status != 'closed':
            ctx.violate('multipart.silent_wrong', '[%s] iteration ended normally after %d part(s) although the '
                        'body is invalid under every reading (%s: %s)' % (stack, len(recs), ref.status, ref.reason),
                        stack=stack, what='accepted_invalid', fault=fault)


def outcome_key(obs):
    """Normalised observation for the WSGI/ASGI agreement oracle."""
    out = []
    for r in obs['records']:
        out.append((r['name'], r['filename'], r['content_type'], r['secure_filename'],
                    b''.join(r['pieces']), repr(r['val']), r['exc'][:2] if r['exc'] else None, r['done']))
    t = obs['terminal']
    if t is not None and t[0] == 'error':
        t = ('error', t[1][:2])
    return out, t


def judge_agree(ctx, wo, ao, fault):
    if not (wo['invoked'] and ao['invoked']) or wo['hang'] or ao['hang']:
        return
    wk, wt = outcome_key(wo)
    ak, at = outcome_key(ao)
    if wk == ak and wt == at:
        return
    what = 'terminal'
    pat = None
    scan = False
    detail = 'outcome wsgi %r vs asgi %r' % (wt, at)
    for i in range(max(len(wk), len(ak))):
        a = wk[i] if i < len(wk) else None
        b = ak[i] if i < len(ak) else None
        if a != b:
            what = 'part'
            src = wo['records'][i] if i < len(wk) else ao['records'][i]
            pat = src['pat'][0]
            if pat == 'until' and i < len(wo['records']):
                # trigger of the known async-reader defect: a delimited scan that never meets its delimiter
                scan = UNTIL_DELIMS[src['pat'][1]] not in b''.join(wo['records'][i]['pieces'])
            detail = 'part %d (%r): wsgi %s vs asgi %s' % (i, src['pat'], _short(a, 160), _short(b, 160))
            break
    ctx.violate('multipart.wsgi_asgi_agree', 'same bytes, different results: ' + detail,
                what=what, pattern=pat, fault=fault, scan_to_end=scan)


# ---------------------------------------------------------------------------
# the run
# ---------------------------------------------------------------------------
def _self_check(w):
    """The two halves of the reference codec must agree with each other."""
    r = mc.flat_parse(w.body, w.boundary)
    ok = r.status == 'closed' and len(r.parts) == len(w.parts) and r.end == w.layout.end_of_form
    if ok:
        for a, b in zip(r.parts, w.parts):
            if (a.name, a.filename, a.ctype, a.content, a.ambig, a.hdr_ambig, a.headers_block) != (
                    b.name, b.filename, b.ctype, b.content, False, False, b.headers_block):
                ok = False
    if not ok:
        raise HarnessError('reference codec disagrees with itself: body %r -> %r' % (w.body, r.summary()))


def run(ctx):
    ch = ctx.ch
    w = gen_workload(ctx)
    cands = gen_candidates(ctx, w)
    ctx.draw_fault_site(limit=95)
    fault = None
    for c in cands:
        if ctx.opportunity(c[0]):
            fault = c
    # ---- everything below draws only schedule choices ----------------------
    body = w.body
    chunks = chunks_of(body, w.cuts)
    fkind = 'none'
    truncated = False
    data = body
    cl = len(body)
    if fault is not None:
        fkind = fault[0]
        if fkind == 'truncate':
            chunks = chunks[:fault[1]]
            data = b''.join(chunks)
            truncated = True
            ctx.probe('truncated')
        else:
            data = apply_corruption(body, fkind, fault[1], fault[2])
            cl = len(data)
            chunks = chunks_of(data, w.cuts)
            ctx.probe('corrupt_' + fkind)
    if any(p.content.endswith(CRLF[:k]) or p.content.endswith(CRLF + b'-') for p in w.parts for k in (1, 2)):
        ctx.probe('content_ends_with_delim_prefix')
    # delimiter straddling an event edge
    edges = set()
    off = 0
    for c in chunks[:-1]:
        off += len(c)
        edges.add(off)
    for a, b, k in w.layout.regions:
        if k in ('delim', 'close') and any(a < e < b for e in edges):
            ctx.probe('delim_straddles_event')
            break

    plan = {
        'boundary': w.boundary.decode('ascii'), 'content_type': w.ctype,
        'parts': [p.as_plan() for p in w.parts],
        'preamble': None if w.preamble is None else w.preamble.decode('latin-1'), 'lead_crlf': w.lead_crlf,
        'epilogue': None if w.epilogue is None else w.epilogue.decode('latin-1'), 'final_crlf': w.final_crlf,
        'body': body.decode('latin-1'), 'patterns': [list(p) for p in w.patterns], 'abandon_after': w.abandon,
        'limit': w.limit, 'max_count': w.max_count, 'max_buf': w.max_buf, 'max_hdr': w.max_hdr,
        'chunk_size_sync': w.cs_sync, 'chunk_size_async': w.cs_async, 'delimiter_len': w.dlen,
        'cuts': w.cuts if len(w.cuts) < 40 else 'every %d' % (w.cuts[1] - w.cuts[0]),
        'asgi_content_length': w.asgi_cl, 'recv_suspends': w.recv_suspends, 'predeliver': w.predeliver,
        'wsgi_short_reads': w.short_reads, 'pipelined': bool(w.pipelined), 'late_fields': w.late_fields,
        'fault': None if fault is None else [fault[0], fault[1], fault[2]],
        'bytes_sent': data.decode('latin-1') if fault is not None else None,
    }
    ctx.plan = plan
    ctx.plan_key = json.dumps(plan, sort_keys=True)

    if fault is None:
        _self_check(w)
        exp = expect_valid(w)
        ref = None
    else:
        exp = None
        ref = mc.flat_parse(data, w.boundary)
        if ref.ambig_tail or any(p.ambig or p.hdr_ambig for p in ref.parts):
            ctx.probe('ref_ambiguous')
        elif ref.status == 'closed' and fkind != 'truncate':
            ctx.probe('ref_closed_after_corruption')
        plan['flat_reference'] = ref.summary()

    saved = (sreader.DEFAULT_CHUNK_SIZE, areader.DEFAULT_CHUNK_SIZE)
    try:
        if w.cs_sync is not None:
            sreader.DEFAULT_CHUNK_SIZE = w.cs_sync
        if w.cs_async is not None:
            areader.DEFAULT_CHUNK_SIZE = w.cs_async
        wo = run_wsgi(ctx, w, data, len(body) if truncated else cl, truncated)
        ao = run_asgi(ctx, w, chunks, (len(body) if truncated else cl) if w.asgi_cl else None, truncated)
    finally:
        sreader.DEFAULT_CHUNK_SIZE, areader.DEFAULT_CHUNK_SIZE = saved

    for stack, obs in (('wsgi', wo), ('asgi', ao)):
        for r in obs['records']:
            ctx.event(stack, r['i'], r['pat'][0], r['name'], r['filename'], r['content_type'],
                      [len(x) for x in r['pieces']][:12], _short(r['val'], 40), r['exc'], r['done'])
        ctx.event(stack, 'terminal', obs['terminal'], obs['hang'])
        if obs['hang']:
            last = obs['records'][-1]['pat'][0] if obs['records'] else 'start'
            ctx.violate('multipart.hang', '[%s] %s' % (stack, obs['hang']), stack=stack, fault=fkind, pattern=last,
                        what='blocked')
        if 'escaped' in obs:
            ctx.violate('multipart.error_class', '[%s] exception escaped the app: %r' % (stack, obs['escaped']),
                        stack=stack, field='escaped', exc=obs['escaped'][2], fault=fkind)
        if not obs['invoked']:
            # ASGI: the client went away before any body event -> no responder call
            if not (stack == 'asgi' and truncated) and not obs['hang'] and 'escaped' not in obs:
                ctx.violate('multipart.parts', '[%s] the responder was not invoked' % stack, stack=stack,
                            field='not_invoked', fault=fkind)
            continue
        if fault is None:
            judge_valid(ctx, stack, obs, w, exp)
        else:
            judge_faulted(ctx, stack, obs, w, ref, fkind)
    if ao.get('loop_errors'):
        ctx.event('loop_errors', ao['loop_errors'][:3])
    if not ctx.verdicts:
        judge_agree(ctx, wo, ao, fkind)

    ctx.ops_done = len(wo['records']) + len(ao['records'])
    ctx.steps = ao.get('steps', 0) + len(wo.get('calls', ()))
    ctx.sched_key = '%s|W%s|A%s' % (fkind if fault is None else '%s@%d:%d' % fault,
                                    ','.join(str(c[1]) for c in wo['calls'][:60]), ao.get('sig', '')[:400])
    ctx.nontrivial = bool((wo['records'] or ao['records']) and (fault is not None or len(chunks) >= 2))
