"""C05 -- responses are protocol-valid and length-consistent on both server
interfaces (DESIGN section 4, C05)."""
import asyncio
import http
import io
import json

import falcon
import falcon.asgi

from detsim.asgi_sim import Conn, HttpMonitor, body_events, http_scope
from detsim.simloop import Env, SimBudgetExceeded, SimLoop
from detsim.wsgi_sim import FileWrapper, WsgiExchange, make_environ

PROPERTY = 'C05'
LEVEL = 'fault_enumeration'
RUNS = {'quick': 9000, 'thorough': 300000}
SWEEP = True
SWEEP_CAP = {'quick': 20, 'thorough': 48}
BATCH = 150
RULE = ('one workload = one generated responder (status as int / status line with standard or custom reason / '
        'http.HTTPStatus / unknown code; any subset of text, data, media, stream; SSE; preset Content-Length / '
        'Content-Type, cookies, extra headers, optional Response subclass overriding render_body) x request method '
        'x server interface (WSGI with or without wsgi.file_wrapper, ASGI) x stream block size 1..16; its fault '
        'sweep = one run per fault point: response stream raises at read/next i, yields empty/None at i, ASGI '
        'send() fails at send j, the app task is cancelled inside send j, WSGI server abandons iteration after chunk j, client disconnects during SSE; '
        'non-trivial = a body source was set or a fault fired; distinct = distinct (plan, fault, schedule) triples')
COMPONENTS = {
    'real': ['falcon.App.__call__/_get_body', 'falcon.asgi.App.__call__ response emission', 'Response.render_body '
             '(WSGI and ASGI)', 'header list construction', 'app_helpers.CloseableStreamIterator',
             'util.misc status normalisation', 'asgi.structures.SSEvent'],
    'stub': ['WSGI server incl. wsgi.file_wrapper and PEP 3333 monitor', 'ASGI server and HTTP monitor',
             'event loop scheduler', 'generated responder and counting stream objects'],
}
EXPECTED_PROBES = ('head_request', 'bodiless_status', 'custom_reason', 'stream_file', 'stream_iter',
                   'stream_raised', 'send_failed', 'abandoned', 'sse', 'sse_disconnect', 'file_wrapper',
                   'custom_response_class', 'preset_content_length', 'cookies', 'several_sources',
                   'rendered_before_final_assignment', 'serialize_failed')
ASSUMPTIONS = (
    'with media set, a preset Content-Type is one the default handlers serve (otherwise the documented 415 path applies)',
    'typeless clause read as: no default type injected when the application set neither content_type nor media',
    'SSE is generated alone (its combination with other body sources is not covered by the statement)',
)

STATUSES = [(200, 200), (201, 201), (204, 204), (304, 304), (404, 404), (799, 799), (101, 101),
            ('200 OK', 200), ('204 No Content', 204), ('204 Custom Reason', 204), ('299 Fine by me', 299),
            ('304 Unchanged', 304), ('HTTPStatus.CREATED', 201), ('HTTPStatus.NO_CONTENT', 204),
            ('HTTPStatus.NOT_MODIFIED', 304), (500, 500), ('100 Continue', 100),
            ('bytes:201 Created', 201), ('bytes:204 No Content', 204)]
BODILESS = (100, 101, 204, 304)


def gen_spec(ch, asgi):
    s = {}
    s['method'] = ch.choice(['GET', 'GET', 'HEAD', 'POST', 'OPTIONS'], 'method')
    s['status'] = list(STATUSES[ch.weighted([6, 2, 3, 2, 1, 1, 1, 2, 1, 2, 1, 1, 1, 1, 1, 1, 1, 1, 1], 'status')])
    src = ch.draw(16, 'sources') if ch.draw(3, 'multi_src') == 2 else [0, 1, 2, 4, 8][ch.draw(5, 'one_src')]
    s['text'] = ch.choice(['hello', 'ünï ✓', '', 'x' * 30], 'text') if src & 1 else None
    s['data'] = ch.choice([b'DATA', b'', b'\x00\xff\xfe', b'd' * 25], 'data').decode('latin-1') if src & 2 else None
    s['media'] = ch.choice([{'a': 1}, ['x', 2, None], 'just a string', {'ü': '✓'}], 'media') if src & 4 else None
    s['stream'] = None
    if src & 8:
        kinds = ['agen', 'aiter_obj', 'aiter_none', 'afile', 'afile_noclose', 'afile_short'] if asgi else \
            ['list', 'gen', 'iter_obj', 'iterable_obj', 'file', 'file_noclose', 'file_short']
        n = ch.draw(5, 'n_chunks')
        chunks = [('c%d' % i) * (1 + ch.draw(6, 'clen')) for i in range(n)]
        s['stream'] = {'kind': ch.choice(kinds, 'stream_kind'), 'chunks': chunks,
                       'set_stream': ch.draw(4, 'via_set_stream') == 3}
    s['sse'] = None
    if asgi and src == 0 and ch.draw(3, 'sse') == 2:
        n = 1 + ch.draw(4, 'n_events')
        evs = []
        for i in range(n):
            k = ch.draw(6, 'ev')
            evs.append([None, {'data': 'd%d' % i}, {'text': 't%d ü' % i, 'event': 'e', 'event_id': str(i)},
                        {'json': {'n': i}, 'retry': 5}, {'comment': 'c%d' % i}, {}][k])
        s['sse'] = evs
    s['preset_cl'] = ch.choice([None, None, None, '3', '0', '999'], 'preset_cl')
    cts = [None, None, 'application/json', 'application/json; charset=utf-8']
    if s['media'] is None:
        cts += ['application/x-whatever', 'text/plain; charset=utf-8']
    s['content_type'] = ch.choice(cts, 'content_type')
    s['cookies'] = ch.draw(3, 'cookies')
    s['extra_headers'] = ch.draw(3, 'extra_headers')
    s['custom_resp'] = ch.choice([None, None, None, 'bytes', 'none'], 'custom_resp')
    s['block'] = ch.choice([1, 2, 3, 5, 8, 16, 8192], 'block')
    # a history on the response object: an earlier media document is set and rendered through the
    # public render_body() (what an ETag / signing middleware does) before the final sources are
    # assigned; the final assignment must win
    s['text_subclass'] = s['text'] is not None and ch.draw(4, 'text_is_str_subclass') == 3
    s['prerender'] = [None, None, None, 'decoy', 'same'][ch.draw(5, 'prerender')] if s['media'] is not None else None
    return s


class _Markup(str):
    pass


class StreamBroken(RuntimeError):
    pass


class Counter(object):
    """Observation of one response stream object."""

    def __init__(self):
        self.calls = 0          # read()/next() calls
        self.closes = 0
        self.raised = False


def make_stream(spec, asgi, fault, cnt):
    """fault: None | ('raise', i) | ('empty', i) | ('none', i)."""
    kind = spec['kind']
    chunks = [c.encode() for c in spec['chunks']]
    seq = list(chunks)
    if fault and fault[0] in ('empty', 'none') and fault[1] <= len(seq):
        seq.insert(fault[1], b'' if fault[0] == 'empty' else None)
    raise_at = fault[1] if fault and fault[0] == 'raise' else None

    def step():
        i = cnt.calls
        cnt.calls += 1
        if raise_at is not None and i == raise_at:
            cnt.raised = True
            raise StreamBroken('stream failed at call %d' % i)
        return i

    if kind == 'list':
        return [c for c in seq if c is not None]
    if kind in ('gen', 'iter_obj'):
        class It(object):
            def __iter__(self):
                return self

            def __next__(self):
                i = step()
                if i >= len(seq):
                    raise StopIteration
                c = seq[i]
                return b'' if c is None else c

            def close(self):
                cnt.closes += 1
        return It()
    if kind == 'iterable_obj':
        # an iterable that is not its own iterator, with a close() of its own (PEP 3333: the server
        # calls close() on the object the application returned)
        class Itb(object):
            def __iter__(self):
                def it():
                    while True:
                        i = step()
                        if i >= len(seq):
                            return
                        c = seq[i]
                        yield b'' if c is None else c
                return it()

            def close(self):
                cnt.closes += 1
        return Itb()
    if kind in ('file', 'file_noclose', 'file_short'):
        buf = io.BytesIO(b''.join(c for c in seq if c))

        class F(object):
            def read(self, n=-1):
                i = step()
                if kind == 'file_short' and n > 1 and i % 2 == 0:
                    return buf.read(max(1, n // 2))     # a legal short read: more data follows
                return buf.read(n)
        if kind in ('file', 'file_short'):
            def close(self):
                cnt.closes += 1
                if fault and fault[0] == 'close_raises':
                    cnt.raised = True
                    raise OSError('close() failed')
            F.close = close
        return F()
    if kind == 'agen':
        async def agen():
            for i in range(len(seq) + 1):
                j = step()
                if j >= len(seq):
                    return
                c = seq[j]
                yield c
        return agen()
    if kind in ('aiter_obj', 'aiter_none'):
        class AIt(object):
            def __aiter__(self):
                return self

            async def __anext__(self):
                i = step()
                if i >= len(seq):
                    if kind == 'aiter_none':
                        return None
                    raise StopAsyncIteration
                return seq[i]

            async def close(self):
                cnt.closes += 1
        return AIt()
    if kind in ('afile', 'afile_noclose', 'afile_short'):
        buf = io.BytesIO(b''.join(c for c in seq if c))

        none_at = fault[1] if fault and fault[0] == 'none' else None

        class AF(object):
            async def read(self, n=-1):
                i = step()
                if none_at is not None and i == none_at:
                    return None       # "no data right now": the framework sends an empty chunk
                if kind == 'afile_short' and n > 1 and i % 2 == 0:
                    return buf.read(max(1, n // 2))     # a legal short read: more data follows
                return buf.read(n)
        if kind in ('afile', 'afile_short'):
            async def close(self):
                cnt.closes += 1
            AF.close = close
        return AF()
    raise AssertionError(kind)


def expected_stream_bytes(spec, fault, asgi):
    """Bytes a faultless consumer would get from the stream (None ends ASGI iteration)."""
    chunks = [c.encode() for c in spec['chunks']]
    seq = list(chunks)
    if fault and fault[0] in ('empty', 'none') and fault[1] <= len(seq):
        seq.insert(fault[1], b'' if fault[0] == 'empty' else None)
    kind = spec['kind']
    out = b''
    for c in seq:
        if c is None:
            if kind in ('agen', 'aiter_obj', 'aiter_none'):
                break
            continue
        out += c
    if kind in ('file', 'file_noclose', 'file_short', 'afile', 'afile_noclose', 'afile_short'):
        return b''.join(c for c in seq if c)
    return out


def sse_reference(ev):
    if not ev:
        return b': ping\n\n'
    block = ''
    if ev.get('comment') is not None:
        block += ': %s\n' % ev['comment']
    if ev.get('event') is not None:
        block += 'event: %s\n' % ev['event']
    if ev.get('event_id') is not None:
        block += 'id: %s\n' % ev['event_id']
    if ev.get('retry') is not None:
        block += 'retry: %d\n' % ev['retry']
    if ev.get('data') is not None:
        block += 'data: %s\n' % ev['data']
    elif ev.get('text') is not None:
        block += 'data: %s\n' % ev['text']
    elif ev.get('json') is not None:
        return block.encode() + b'data: ' + json.dumps(ev['json']).encode() + b'\n\n'
    return (block + '\n').encode()


def resolve_status(sv):
    if isinstance(sv, str) and sv.startswith('HTTPStatus.'):
        return getattr(http.HTTPStatus, sv[11:])
    if isinstance(sv, str) and sv.startswith('bytes:'):
        return sv[6:].encode()
    return sv


class _Env(Env):
    def __init__(self):
        self.conn = None
        self.conn2 = None

    def actions(self):
        acts = self.conn.actions(2, 3, 3)
        if self.conn2 is not None:
            acts = list(acts) + list(self.conn2.actions(2, 3, 3))
        return acts


class _Sim(object):
    def __init__(self, loop, ch, ctx):
        self.loop, self.chooser, self.ctx = loop, ch, ctx

    def note(self, name):
        self.ctx.probe(name)


def run(ctx):
    ch = ctx.ch
    iface = ch.weighted([2, 2, 3], 'iface')       # 0 wsgi, 1 wsgi+file_wrapper, 2 asgi
    asgi = iface == 2
    spec = gen_spec(ch, asgi)
    n_chunks = len(spec['stream']['chunks']) if spec['stream'] else 0
    # ---- fault sweep (static opportunities) ---------------------------------------
    ctx.draw_fault_site(limit=63)
    fault = None
    send_fail = None
    send_cancel = None
    abandon = None
    sse_disc = False
    if spec['stream']:
        for i in range(n_chunks + 1):
            if ctx.opportunity('stream_raises'):
                fault = ('raise', i)
        for i in range(n_chunks + 1):
            if ctx.opportunity('stream_empty_chunk'):
                fault = ('empty', i)
            if asgi or spec['stream']['kind'] in ('gen', 'iter_obj', 'iterable_obj'):
                if ctx.opportunity('stream_none_chunk') and asgi:
                    fault = ('none', i)
        if not asgi:
            for j in range(n_chunks + 1):
                if ctx.opportunity('server_abandons'):
                    abandon = j
            if spec['stream']['kind'] in ('file', 'file_short') and ctx.opportunity('stream_close_raises'):
                fault = ('close_raises', 0)      # the stream's own close() fails (still: called once)
    if asgi:
        n_sends = 2 + n_chunks + (len(spec['sse']) if spec['sse'] else 0)
        for j in range(min(n_sends, 8)):
            if ctx.opportunity('send_fails'):
                send_fail = j
        for j in range(min(n_sends, 8)):
            if ctx.opportunity('send_cancelled'):
                send_cancel = j
        if spec['sse'] and ctx.opportunity('sse_client_disconnects'):
            sse_disc = True
    # the media handler fails while the framework renders the body (after responder and
    # middleware completed): the error document sent instead must be framed like any response
    ser_fail = False
    if spec['media'] is not None and spec['text'] is None and spec['data'] is None and spec['sse'] is None \
            and spec['custom_resp'] != 'bytes' and ctx.opportunity('media_serialize_raises'):
        ser_fail = True
        spec['prerender'] = None
    # the server's wsgi.file_wrapper refuses the object it is handed (a sendfile-style wrapper asking
    # an in-memory file for fileno()): "any other Exception" raised while the body is prepared
    fw_fail = False
    if iface == 1 and spec['stream'] and 'file' in spec['stream']['kind'] and spec['text'] is None \
            and spec['data'] is None and spec['media'] is None and spec['custom_resp'] != 'bytes' \
            and spec['method'] != 'HEAD' and spec['status'][1] not in BODILESS \
            and ctx.opportunity('file_wrapper_raises'):
        fw_fail = ser_fail = True          # judged like the other render-time failure: a framed 500
    send_suspends = bool(ch.draw(2, 'send_suspends')) if asgi else False
    ctx.plan = {'iface': ['wsgi', 'wsgi+file_wrapper', 'asgi'][iface], 'spec': spec,
                'fault': list(fault) if fault else None, 'send_fail': send_fail, 'send_cancel': send_cancel, 'abandon': abandon,
                'sse_disconnect': sse_disc, 'serialize_fails': ser_fail}
    ctx.plan_key = json.dumps(ctx.plan, sort_keys=True)
    cnt = Counter()
    status_value = resolve_status(spec['status'][0])
    code = 500 if ser_fail else spec['status'][1]

    def fill(req, resp):
        resp.status = status_value
        if spec['content_type'] is not None:
            resp.content_type = spec['content_type']
        if spec['prerender']:
            resp.media = {'stale': 'an earlier document'} if spec['prerender'] == 'decoy' else spec['media']
            yield 'render'
        if spec['text'] is not None:
            # a str subclass (markupsafe-style) is a str
            resp.text = _Markup(spec['text']) if spec.get('text_subclass') else spec['text']
        if spec['data'] is not None:
            resp.data = spec['data'].encode('latin-1')
        if spec['media'] is not None and spec['prerender'] != 'same':
            resp.media = {'unserializable': object()} if (ser_fail and not fw_fail) else spec['media']
        if spec['stream'] is not None:
            if spec['stream'].get('set_stream'):
                # set_stream(stream, content_length): the declared length goes out as Content-Length
                resp.set_stream(make_stream(spec['stream'], asgi, fault, cnt),
                                len(b''.join(c.encode() for c in spec['stream']['chunks'])))
            else:
                resp.stream = make_stream(spec['stream'], asgi, fault, cnt)
        if spec['preset_cl'] is not None:
            resp.content_length = spec['preset_cl']
        for i in range(spec['cookies']):
            resp.set_cookie('ck%d' % i, 'v%d' % i)
        if spec['extra_headers'] >= 1:
            resp.set_header('X-One', 'first')
        if spec['extra_headers'] >= 2:
            resp.append_header('X-Multi', 'a')
            resp.append_header('X-Multi', 'b')
        yield 'done'

    custom = spec['custom_resp']
    base = falcon.asgi.Response if asgi else falcon.Response
    resp_type = None
    if custom:
        ctx.probe('custom_response_class')
        if asgi:
            class R(base):
                async def render_body(self):
                    if custom == 'bytes':
                        return b'CUSTOM-BODY'
                    return await super().render_body()
        else:
            class R(base):
                def render_body(self):
                    if custom == 'bytes':
                        return b'CUSTOM-BODY'
                    return super().render_body()
        resp_type = R

    if asgi:
        class Res(object):
            async def on_get(self, req, resp):
                for what in fill(req, resp):
                    if what == 'render':
                        ctx.probe('rendered_before_final_assignment')
                        await resp.render_body()
                if spec['sse'] is not None:
                    async def emitter():
                        for ev in spec['sse']:
                            if ev is None:
                                yield None
                            else:
                                kw = dict(ev)
                                if 'data' in kw:
                                    kw['data'] = kw['data'].encode()
                                yield falcon.asgi.SSEvent(**kw)
                    resp.sse = emitter()
            on_post = on_head = on_options = on_get

        class A(falcon.asgi.App):
            _STREAM_BLOCK_SIZE = spec['block']
        app = A(response_type=resp_type) if resp_type else A()
    else:
        class Res(object):
            def on_get(self, req, resp):
                for what in fill(req, resp):
                    if what == 'render':
                        ctx.probe('rendered_before_final_assignment')
                        resp.render_body()
            on_post = on_head = on_options = on_get

        class A(falcon.App):
            _STREAM_BLOCK_SIZE = spec['block']
        app = A(response_type=resp_type) if resp_type else A()
    app.add_route('/r', Res())
    if asgi:
        class Other(object):
            async def on_get(self, req, resp):
                resp.status = 203
                resp.text = 'a different response'
                resp.set_header('X-Other', 'yes')
        app.add_route('/other', Other())

    # ---- execute -------------------------------------------------------------------
    wrapper = None
    if asgi:
        env = _Env()
        loop = SimLoop(ch, env, max_steps=4000)
        sim = _Sim(loop, ch, ctx)
        scope = http_scope(method=spec['method'], path='/r')
        events = body_events([])
        if sse_disc:
            events = events + [{'type': 'http.disconnect'}]
        conn = Conn(sim, 'http', scope, events, HttpMonitor(), recv_suspends=bool(ch.draw(2, 'recv_suspends')),
                    send_suspends=send_suspends, lost_mode='drop' if sse_disc else 'oserror')
        if send_fail is not None:
            conn.fail_send_at = frozenset([send_fail])
        if send_cancel is not None:
            conn.cancel_send_at = frozenset([send_cancel])
        env.conn = conn
        result = {}

        # a follow-up request on the same app: a server (or middleware) may still hold the
        # first response's event objects at that time -- they must not change under it
        scope2 = http_scope(method='GET', path='/other')
        conn2 = Conn(sim, 'http', scope2, body_events([]), HttpMonitor(), lost_mode='drop', name='F')
        env.conn2 = conn2

        async def driver():
            try:
                await app(scope, conn.receive, conn.send)
            except asyncio.CancelledError:
                if not conn.send_cancelled:
                    raise
                result['cancelled'] = True
                return
            except Exception as ex:
                result['exc'] = ex
                return
            try:
                await app(scope2, conn2.receive, conn2.send)
            except Exception as ex:
                result['exc2'] = ex

        finished = False
        try:
            task = loop.run_main(driver())
            finished = task.done()
        except SimBudgetExceeded:
            pass
        ctx.steps = loop.steps
        ctx.sched_key = 'A' + loop.sig()
        pending_watchers = len(loop.pending_tasks()) - (0 if finished else 1)
        try:
            loop.drain()
        finally:
            loop.close()
        mon = conn.monitor
        app_exc = result.get('exc')
        status, headers = mon.status, [(n.decode('latin-1'), v.decode('latin-1')) for n, v in (mon.headers or [])]
        body = mon.body
        started = mon.state != 'init'
        complete = mon.state == 'done'
        viol = mon.violations
        faulted = conn.send_failed or cnt.raised or sse_disc or conn.send_cancelled
        if not finished:
            ctx.violate('resp.hang', 'app did not return (plan %r)' % (ctx.plan,))
            return
        if pending_watchers > 0:
            ctx.probe('task_left_pending')
    else:
        inp = io.BytesIO(b'')
        fw = None
        if iface == 1:
            ctx.probe('file_wrapper')

            def fw(f, blk=8192):
                if fw_fail:
                    raise TypeError('this wsgi.file_wrapper needs an object with fileno()')
                w = FileWrapper(f, blk)
                wrappers.append(w)
                return w
        wrappers = []
        envd = make_environ(method=spec['method'], path='/r', body_input=inp, file_wrapper=fw)
        ex = WsgiExchange(ctx)
        if ex.call(app, envd):
            ex.consume(abandon_after=abandon)
        app_exc = ex.app_exc
        status, headers, body = ex.status_code, list(ex.headers or []), ex.body
        started = ex.start_calls > 0
        complete = not ex.abandoned and ex.iter_error is None
        viol = ex.violations
        faulted = ex.abandoned or cnt.raised
        ctx.sched_key = 'W'
        if ex.abandoned:
            ctx.probe('abandoned')
        if ex.iter_error is not None and not isinstance(ex.iter_error, StreamBroken) \
                and not (fault and fault[0] == 'close_raises' and isinstance(ex.iter_error, OSError)):
            ctx.violate('resp.iter_error', 'iterating the response raised %r' % (ex.iter_error,))
    ctx.sched_key += '|%r|%r|%r|%r' % (fault, send_fail, abandon, send_cancel)
    for oid, msg in viol:
        ctx.violate(oid, msg, iface=ctx.plan['iface'])
    ctx.event('resp', status, len(body), cnt.calls, cnt.closes, started, complete)
    if cnt.raised:
        ctx.probe('stream_raised')
    if asgi and conn.send_failed:
        ctx.probe('send_failed')

    # ---- reference ------------------------------------------------------------------
    iface_name = ctx.plan['iface']
    method = spec['method']
    if method == 'HEAD':
        ctx.probe('head_request')
    if code in BODILESS:
        ctx.probe('bodiless_status')
    if isinstance(spec['status'][0], str) and 'Custom' in spec['status'][0] or spec['status'][0] in (
            '299 Fine by me', '304 Unchanged'):
        ctx.probe('custom_reason')
    nsrc = sum(1 for k in ('text', 'data', 'media', 'stream') if spec[k] is not None)
    if nsrc >= 2:
        ctx.probe('several_sources')
    if spec['cookies']:
        ctx.probe('cookies')
    if spec['preset_cl']:
        ctx.probe('preset_content_length')
    ctx.nontrivial = nsrc >= 1 or spec['sse'] is not None or faulted
    ctx.ops_done = 1
    if app_exc is not None:
        if not (faulted and isinstance(app_exc, (StreamBroken, OSError))):
            ctx.violate('resp.app_raised', 'exception escaped the app: %r' % (app_exc,), iface=iface_name)
            return
    if not started:
        if not faulted:
            ctx.violate('resp.not_started', 'no response was started', iface=iface_name)
        return
    if status != code:
        ctx.violate('resp.status', 'status %r sent for resp.status = %r' % (status, spec['status'][0]),
                    iface=iface_name)
    hl = [(n.lower(), v) for n, v in headers]
    cl = [v for n, v in hl if n == 'content-length']
    ct = [v for n, v in hl if n == 'content-type']
    sig = {'iface': iface_name}
    bodiless = method == 'HEAD' or code in BODILESS
    # which source wins
    streamed = False
    if spec['sse'] is not None:
        ctx.probe('sse')
        want = b''.join(sse_reference(e) for e in spec['sse'])
        if sse_disc:
            ctx.probe('sse_disconnect')
        streamed = True
    elif custom == 'bytes':
        want = b'CUSTOM-BODY'
    elif ser_fail:
        ctx.probe('serialize_failed')
        want = None
    elif spec['text'] is not None:
        want = spec['text'].encode('utf-8')
    elif spec['data'] is not None:
        want = spec['data'].encode('latin-1')
    elif spec['media'] is not None:
        want = ('media', spec['media'])
    elif spec['stream'] is not None:
        want = expected_stream_bytes(spec['stream'], fault, asgi)
        streamed = True
        ctx.probe('stream_file' if 'file' in spec['stream']['kind'] else 'stream_iter')
    else:
        want = b''
    if bodiless:
        if body != b'':
            ctx.violate('resp.bodiless', '%s response with status %r carries %d body bytes %r' % (
                method, spec['status'][0], len(body), body[:40]), what='HEAD' if method == 'HEAD' else 'status',
                custom_reason=isinstance(spec['status'][0], str) and code_to_default(spec['status'][0]), **sig)
    else:
        if want is None:
            if not body and not faulted:
                ctx.violate('resp.precedence', 'serialization of resp.media failed: no error document was sent',
                            src='error_document', **sig)
        elif isinstance(want, tuple):
            try:
                ok = json.loads(body.decode('utf-8')) == want[1]
            except Exception:
                ok = False
            if not ok and not faulted:
                ctx.violate('resp.precedence', 'media %r rendered as %r' % (want[1], body[:80]), src='media', **sig)
        elif faulted or sse_disc:
            if not want.startswith(body):
                ctx.violate('resp.precedence', 'after a fault the delivered bytes %r are not a prefix of %r' % (
                    body[:60], want[:60]), src='prefix', **sig)
        elif body != want:
            src = 'sse' if spec['sse'] is not None else 'custom' if custom == 'bytes' else \
                'text' if spec['text'] is not None else 'data' if spec['data'] is not None else \
                'stream' if spec['stream'] is not None else 'none'
            ctx.violate('resp.precedence', 'body %r sent, documented precedence gives %r (sources: text=%r '
                        'data=%r media=%r stream=%r)' % (body[:60], want[:60], spec['text'], spec['data'],
                                                         spec['media'], bool(spec['stream'])), src=src, **sig)
        if not streamed and not faulted:
            if len(cl) != 1 or cl[0] != str(len(body)):
                ctx.violate('resp.content_length', 'Content-Length %r for %d body bytes (preset %r)' % (
                    cl, len(body), spec['preset_cl']), **sig)
    # Content-Type
    if code in (204, 304):
        if spec['content_type'] is None and spec['media'] is None and ct:
            ctx.violate('resp.content_type', '%d response carries framework-supplied Content-Type %r' % (code, ct),
                        what='typeless', **sig)
    elif not ct:
        ctx.violate('resp.content_type', 'status %r response has no Content-Type' % (code,), what='missing', **sig)
    if spec['sse'] is not None and not bodiless and ct and spec['content_type'] is None \
            and not ct[0].startswith('text/event-stream'):
        ctx.violate('resp.content_type', 'SSE response has Content-Type %r' % (ct,), what='sse', **sig)
    # cookies / extra headers reach the server on separate lines
    n_ck = sum(1 for n, v in hl if n == 'set-cookie')
    if n_ck != spec['cookies']:
        ctx.violate('resp.headers', '%d Set-Cookie lines for %d cookies' % (n_ck, spec['cookies']), **sig)
    # nothing but what the application (or the documented framing) put there
    allowed = {'content-type', 'content-length', 'set-cookie'}
    if ser_fail:
        allowed.add('vary')          # the error document is negotiated: Vary: Accept
    if spec['extra_headers'] >= 1:
        allowed.add('x-one')
    if spec['extra_headers'] >= 2:
        allowed.add('x-multi')
    strangers = sorted(set(n for n, _v in hl) - allowed)
    if strangers:
        ctx.violate('resp.headers', 'response carries header(s) %r the application never set' % (strangers,),
                    what='unexpected', **sig)
    if spec['extra_headers'] >= 1 and [v for n, v in hl if n == 'x-one'] != ['first']:
        ctx.violate('resp.headers', 'X-One: %r' % ([v for n, v in hl if n == 'x-one'],), what='value', **sig)
    if spec['extra_headers'] >= 2:
        xm = ','.join(v for n, v in hl if n == 'x-multi').replace(' ', '')
        if xm != 'a,b':
            ctx.violate('resp.headers', 'X-Multi: %r' % (xm,), what='value', **sig)
    ck = sorted(v.split('=', 1)[0] for n, v in hl if n == 'set-cookie')
    if ck != ['ck%d' % i for i in range(spec['cookies'])]:
        ctx.violate('resp.headers', 'Set-Cookie names %r' % (ck,), what='cookies', **sig)
    # close count on the stream object
    if spec['stream'] is not None and spec['stream']['kind'] in ('gen', 'iter_obj', 'iterable_obj', 'file', 'file_short',
                                                                 'aiter_obj', 'aiter_none', 'afile',
                                                                 'afile_short'):
        if cnt.calls > 0 and cnt.closes != 1:
            why = 'stream_raised' if cnt.raised else 'send_cancelled' if (asgi and conn.send_cancelled) else \
                'send_failed' if (asgi and conn.send_failed) else \
                'abandoned' if abandon is not None else 'completed'
            ctx.violate('resp.stream_close_count', 'streaming began (%d reads) but close() was called %d times '
                        '(%s, stream kind %s)' % (cnt.calls, cnt.closes, why, spec['stream']['kind']),
                        why=why, kind=spec['stream']['kind'], **sig)
        if cnt.calls == 0 and cnt.closes > 1:
            ctx.violate('resp.stream_close_count', 'close() called %d times on an unread stream' % cnt.closes,
                        why='unread', **sig)
    # completion
    hard_fault = asgi and (conn.send_failed or conn.send_cancelled or cnt.raised)
    if asgi and not hard_fault and app_exc is None and not complete:
        # also after a client disconnect that the server merely swallows (no send() ever failed):
        # the application's event sequence must still be terminated
        ctx.violate('asgi.monitor.incomplete', 'response not finished: state %s%s' % (
            mon.state, ' (client disconnected during SSE; sends are swallowed, none failed)' if sse_disc else ''),
            after_disconnect=bool(sse_disc), **sig)


def code_to_default(s):
    """True when a status line uses a non-standard reason phrase."""
    try:
        return falcon.code_to_http_status(int(s[:3])) != s
    except Exception:
        return False
