"""C04 -- every raised exception becomes the response its most specific handler
defines (DESIGN section 4, C04). Shares the C03 stack harness; adds generated
exception hierarchies, handler-registration histories, the raise site swept
over every call site plus the body-rendering window, and rendering oracles."""
import json
import xml.etree.ElementTree as ET

import falcon
import falcon.asgi
import falcon.media

from props.stack_common import Stack, gen_stack, run_asgi, run_wsgi

PROPERTY = 'C04'
LEVEL = 'fault_enumeration'
RUNS = {'quick': 9000, 'thorough': 300000}
SWEEP = True
SWEEP_CAP = {'quick': 24, 'thorough': 64}
BATCH = 100
RULE = ('one workload = one generated exception hierarchy (<=6 classes, single/multiple inheritance, rooted in '
        'Exception / falcon.HTTPError / falcon.HTTPStatus) x one handler registration history (<=6 '
        'add_error_handler calls with classes and tuples, re-registrations, defaults overridden or not) x one '
        'exception instance (seeded unicode title/description/code/href/headers) x Accept header x '
        'xml_error_serialization x custom media type x stack (C03 generator) x WSGI/ASGI; its fault sweep = one '
        'run per raise site (every middleware method, hook, responder, media serialization, custom render_body), '
        'handlers may themselves raise HTTPError/HTTPStatus; non-trivial = an exception was actually raised and '
        'handled; distinct = distinct (plan, raise site, schedule) triples')
COMPONENTS = {
    'real': ['falcon.App/_handle_exception/_find_error_handler (WSGI and ASGI)', 'default error handlers',
             'app_helpers.default_serialize_error', 'falcon.HTTPError.to_dict/to_json/_to_xml',
             'falcon.HTTPStatus', 'request Accept negotiation (client_prefers)'],
    'stub': ['WSGI/ASGI servers', 'event loop scheduler', 'generated exception classes, handlers, middleware, '
             'hooks, responder, failing media handler / render_body'],
}
EXPECTED_PROBES = ('pre_request', 'hostile_str', 'raised_in_mw', 'raised_in_hook', 'raised_in_responder', 'raised_in_response_mw',
                   'raised_in_render', 'framework_raised_in_render', 'error_document_serializer_failed', 'default_http_handler', 'default_status_handler',
                   'default_python_handler', 'custom_handler', 'handler_raised_http', 'handler_raised_status',
                   'xml_body', 'json_body', 'custom_media_body', 'no_body_negotiated', 'multi_inheritance')
ASSUMPTIONS = (
    'error strings are restricted to characters XML 1.0 can represent',
    'Accept headers come from a small unambiguous grammar (general negotiation is property C11)',
    'a handler raising a non-HTTP exception is unspecified and not generated',
)

TEXTS = ['Plain title', 'Ünïcödé ✓', 'astral \U0001F600 x', '<tag> & "quotes" \'single\'', ']]> &amp; &#x41;',
         'line\nbreak\ttab', '', 'a' * 40, '‮RTL‬', 'null-ish \\u0000 text', '   spaced   ']
HREFS = [None, 'http://example.com/docs', 'http://exämple.com/päth?q=ü&x=1', '/relative path/with space']


def gen_hierarchy(ch):
    """-> list of (name, bases, family). Families: app, http, status."""
    n = 1 + ch.draw(6, 'n_classes')
    classes = []
    for i in range(n):
        name = 'E%d' % i
        fam = ch.choice(['app', 'app', 'http', 'http', 'status'], 'family')
        same = [c for c in classes if c[2] == fam]
        root = {'app': 'Exception', 'http': 'HTTPError', 'status': 'HTTPStatus'}[fam]
        bases = []
        if same and ch.draw(3, 'derive') != 0:
            bases.append(same[ch.draw(len(same), 'base')][0])
            if len(same) > 1 and ch.draw(3, 'second_base') == 2:
                b2 = same[ch.draw(len(same), 'base2')][0]
                if b2 not in bases:
                    bases.append(b2)
        else:
            bases.append(root)
        if fam == 'http' and bases == ['HTTPError'] and ch.draw(4, 'mixin') == 3:
            apps = [c for c in classes if c[2] == 'app']
            if apps:
                bases.insert(0, apps[ch.draw(len(apps), 'mixin_base')][0])
        classes.append((name, bases, fam))
    return classes


def build_classes(spec):
    ns = {'Exception': Exception, 'HTTPError': falcon.HTTPError, 'HTTPStatus': falcon.HTTPStatus}
    ok = []
    for name, bases, fam in spec:
        try:
            ns[name] = type(name, tuple(ns[b] for b in bases), {})
            ok.append((name, bases, fam))
        except TypeError:
            # inconsistent MRO / layout conflict: drop the second base
            ns[name] = type(name, (ns[bases[0]],), {})
            ok.append((name, bases[:1], fam))
    return ns, ok


def gen_error_args(ch):
    return {
        'status': ch.choice([400, 404, 409, 418, 422, 503, 500, 451], 'err_status'),
        # the error may carry its own (equally legal) status line with a custom reason phrase
        'reason': ch.choice([None, None, None, 'Validation Failed', 'Try Again Later'], 'err_reason'),
        'title': ch.choice([None] + TEXTS, 'title'),
        'description': ch.choice([None] + TEXTS, 'description'),
        'code': ch.choice([None, 0, 7, 123456789, -3], 'code'),
        'href': ch.choice(HREFS, 'href'),
        'href_text': ch.choice([None, 'Read më'], 'href_text'),
        'headers': ch.choice([None, {'X-Err': 'one'}, [('X-Err', 'lst'), ('Retry-After', '12')],
                              {'Vary': 'Accept-Language'}, [('Vary', 'Accept-Encoding, Cookie'), ('X-Err', 'v')]],
                             'err_headers'),
    }


def _status_of(ea):
    return '%d %s' % (ea['status'], ea['reason']) if ea.get('reason') else ea['status']


def gen_status_args(ch):
    return {'status': ch.choice([200, 201, 204, 302, 404, 418], 'st_status'),
            'headers': ch.choice([None, {'X-St': 'v'}], 'st_headers'),
            'text': ch.choice([None, 'status text ü', ''], 'st_text')}


ACCEPTS = [None, 'application/json', 'application/xml', 'text/xml', '*/*', 'text/plain',
           'application/json;q=0.2, application/xml;q=0.9', 'application/xml;q=0.1, application/json;q=0.8',
           'application/vnd.x+json', 'application/vnd.x+xml', 'application/x-custom',
           'application/x-custom;q=0.9, application/json;q=0.1', 'text/html, application/xml;q=0.5']


class _StaleStream(object):
    """A response stream attached before the error was raised."""

    def __init__(self):
        self.chunks = [b'stale ', b'stream']

    def __iter__(self):
        return self

    def __next__(self):
        if not self.chunks:
            raise StopIteration
        return self.chunks.pop(0)


async def _stale_agen():
    yield b'stale '
    yield b'stream'


class CustomHandler(falcon.media.BaseHandler):
    def serialize(self, media, content_type=None):
        return ('CUSTOM:' + json.dumps(media, sort_keys=True)).encode()

    def deserialize(self, stream, content_type, content_length):
        return None

    exhaust_stream = False


class FailingHandler(falcon.media.BaseHandler):
    def __init__(self, exc_factory):
        self.exc_factory = exc_factory

    def serialize(self, media, content_type=None):
        raise self.exc_factory()

    def deserialize(self, stream, content_type, content_length):
        return None


# built-in errors that add a header of their own (status, own headers)
BUILTIN = {
    'B:method_not_allowed': (405, {'Allow': 'GET, PUT'}),
    'B:unauthorized': (401, {'WWW-Authenticate': 'Basic realm="x"'}),
    'B:too_many': (429, {'Retry-After': '120'}),
    'B:range': (416, {'Content-Range': 'bytes */42'}),
    'B:unavailable': (503, {'Retry-After': '30'}),
}


def builtin_exc(kind):
    k = kind.split(':', 1)[-1]
    if k == 'method_not_allowed':
        return falcon.HTTPMethodNotAllowed(['GET', 'PUT'])
    if k == 'unauthorized':
        return falcon.HTTPUnauthorized(challenges=['Basic realm="x"'])
    if k == 'too_many':
        return falcon.HTTPTooManyRequests(retry_after=120)
    if k == 'range':
        return falcon.HTTPRangeNotSatisfiable(42)
    return falcon.HTTPServiceUnavailable(retry_after=30)


def expected_format(accept, xml_on, custom_on):
    """-> 'json' | 'xml' | 'custom' | None for the small Accept grammar."""
    if accept in (None, '*/*', 'application/json', 'application/vnd.x+json',
                  'application/xml;q=0.1, application/json;q=0.8'):
        return 'json'
    if accept in ('application/xml', 'text/xml', 'text/html, application/xml;q=0.5',
                  'application/vnd.x+xml'):
        return 'xml' if xml_on else None
    if accept == 'application/json;q=0.2, application/xml;q=0.9':
        return 'xml' if xml_on else 'json'
    if accept == 'application/x-custom':
        return 'custom' if custom_on else None
    if accept == 'application/x-custom;q=0.9, application/json;q=0.1':
        return 'custom' if custom_on else 'json'
    return None


def run(ctx):
    ch = ctx.ch
    spec = gen_hierarchy(ch)
    ns, spec = build_classes(spec)
    if any(len(b) > 1 for _n, b, _f in spec):
        ctx.probe('multi_inheritance')
    # registration history
    n_reg = ch.draw(7, 'n_reg')
    n_handlers = 1 + ch.draw(4, 'n_handlers')
    regs = []
    names = [s[0] for s in spec]
    for _ in range(n_reg):
        k = ch.draw(n_handlers, 'handler')
        pool = names + (['Exception', 'HTTPError', 'HTTPStatus', 'ValueError'] if ch.draw(4, 'override_defaults') == 3 else [])
        if ch.draw(4, 'tuple') == 3 and len(pool) > 1:
            cl = sorted(set(pool[ch.draw(len(pool), 'cls')] for _ in range(2)))
        else:
            cl = [pool[ch.draw(len(pool), 'cls')]]
        regs.append((k, cl))
    behaviours = [ch.choice(['set', 'set', 'raise_http', 'raise_status'], 'behaviour')
                  for _ in range(n_handlers)]
    # the exception to raise
    raise_pool = names + ['HTTPError', 'HTTPNotFound', 'HTTPStatus', 'ValueError'] + sorted(BUILTIN)
    raise_cls = raise_pool[ch.draw(len(raise_pool), 'raise_cls')]
    err_args = gen_error_args(ch)
    st_args = gen_status_args(ch)
    err2 = gen_error_args(ch)
    st2 = gen_status_args(ch)
    accept = ch.choice(ACCEPTS, 'accept')
    xml_on = bool(ch.draw(2, 'xml_on'))
    custom_on = bool(ch.draw(2, 'custom_on'))
    # the configured media type is served either by a plain BaseHandler subclass or by the stock
    # JSONHandler with a custom dumps (which has the optimised sync protocol); in the second form
    # the serializer may fail whenever it is asked to render a document (fault)
    custom_fast = bool(ch.draw(2, 'custom_handler_is_jsonhandler')) if custom_on else False
    doc_fail = custom_fast and ch.draw(5, 'document_serializer_fails') == 4
    asgi = bool(ch.draw(2, 'asgi'))
    plan = gen_stack(ch, max_components=2)
    plan['routed'] = True
    render_kind = ch.choice(['media', 'render_body', 'text'], 'render_kind')
    pre_vary = ch.choice([None, None, 'Accept-Encoding', 'Origin, Accept-Language'], 'pre_vary')
    pre_same = ch.draw(4, 'headers_of_the_same_name_set_before') == 3
    audit_render = ch.draw(3, 'handler_renders_error_before_raising') == 2
    pre_complete = bool(plan['components']) and plan['components'][0]['request'] and \
        ch.draw(5, 'first_component_short_circuits') == 4
    # an earlier request on the same app that ends in a header-bearing built-in error
    pre_kind = ch.choice([None, None, 'method_not_allowed', 'unauthorized', 'too_many', 'range', 'unavailable'],
                         'pre_request')
    unreadable = ch.draw(3, 'unreadable_body') == 2
    hostile = ch.draw(4, 'hostile_str') == 3
    stale_kind = ch.draw(3, 'stale_kind')
    stale_stream = ch.draw(4, 'stale_stream') == 3
    fam_of = {n: f for n, _b, f in spec}
    fam_of.update({'HTTPError': 'http', 'HTTPNotFound': 'http', 'HTTPStatus': 'status', 'ValueError': 'app'})
    for b in BUILTIN:
        fam_of[b] = 'http'
        ns[b] = falcon.HTTPError
    ns['HTTPNotFound'] = falcon.HTTPNotFound
    ns['ValueError'] = ValueError

    def make_exc(cls_name, ea, sa):
        if cls_name in BUILTIN:
            return builtin_exc(cls_name)
        fam = fam_of[cls_name]
        cls = ns[cls_name]
        if fam == 'http':
            if cls_name == 'HTTPNotFound':
                return cls(title=ea['title'], description=ea['description'], headers=ea['headers'],
                           href=ea['href'], href_text=ea['href_text'], code=ea['code'])
            return cls(_status_of(ea), title=ea['title'], description=ea['description'],
                       headers=ea['headers'], href=ea['href'], href_text=ea['href_text'], code=ea['code'])
        if fam == 'status':
            return cls(sa['status'], headers=sa['headers'], text=sa['text'])
        return cls('boom')

    # raise site: swept
    sites = []
    for i, c in enumerate(plan['components']):
        for m in ('request', 'resource', 'response'):
            if c[m]:
                sites.append('mw%d.%s' % (i, m))
    for idx, kind in enumerate(plan['hooks']):
        sites.append('hook%d.%s' % (idx, kind))
    sites.append('responder')
    sites.append('render')
    ctx.draw_fault_site(limit=63)
    raise_site = None
    for s in sites:
        if ctx.opportunity('raise_at_site'):
            raise_site = s
    ctx.plan = {'classes': spec, 'registrations': regs, 'behaviours': behaviours, 'raise': raise_cls,
                'raise_site': raise_site, 'err': err_args, 'status': st_args, 'accept': accept,
                'xml': xml_on, 'custom_media': custom_on, 'custom_fast': custom_fast, 'doc_fail': doc_fail,
                'asgi': asgi, 'stack': plan,
                'render_kind': render_kind, 'pre_vary': pre_vary, 'pre_same': pre_same, 'audit_render': audit_render, 'pre_complete': pre_complete, 'hostile_str': hostile,
                'pre_request': pre_kind, 'unreadable_body': unreadable, 'stale_kind': stale_kind,
                'stale_stream': stale_stream}
    ctx.plan_key = json.dumps(ctx.plan, sort_keys=True, default=repr)

    calls = []          # (handler idx, class name of ex, text/data/media at entry)
    raised = {}
    if raise_site == 'render' and render_kind == 'text':
        # the framework itself raises while rendering: resp.text holds a str that UTF-8 cannot
        # encode (a lone surrogate, e.g. echoed from a JSON escape)
        raise_cls = 'UnicodeEncodeError'
        fam_of[raise_cls] = 'app'
        ns[raise_cls] = UnicodeEncodeError
        ctx.plan['raise'] = raise_cls
        ctx.plan_key = json.dumps(ctx.plan, sort_keys=True, default=repr)
        ctx.probe('framework_raised_in_render')
    the_exc = make_exc(raise_cls, err_args, st_args) if raise_cls != 'UnicodeEncodeError' else \
        UnicodeEncodeError('utf-8', 'caf\udce9', 3, 4, 'surrogates not allowed')
    if hostile and fam_of[raise_cls] == 'app' and raise_cls not in ('ValueError', 'UnicodeEncodeError'):
        # an exception whose __str__/__repr__ misbehave is still "any other Exception"
        class _Hostile(type(the_exc)):
            def __str__(self):
                return 5            # TypeError: __str__ returned non-string

            def __repr__(self):
                raise RuntimeError('repr is broken too')
        _Hostile.__name__ = type(the_exc).__name__
        ns[raise_cls + '!hostile'] = _Hostile
        the_exc = _Hostile('boom')
        ctx.probe('hostile_str')

    def act(site):
        if pre_complete and site == 'mw0.request' and site != raise_site:
            # the first component answers the request itself (short-circuit with a body); what a
            # later process_response raises still goes through the error machinery, body discarded
            def short_circuit(req, resp):
                resp.text = 'answered by the first component'
                resp.complete = True
            return short_circuit
        if site != raise_site:
            return None

        def go(req, resp):
            # leave something behind that the framework must discard
            if stale_kind == 0:
                resp.text = 'stale text'
                resp.data = b'stale data'
                resp.media = {'stale': True}
            elif stale_kind == 1:
                # media only, and already rendered once (an ETag/digest step would do that)
                resp.media = {'stale': 'rendered'}
                if not asgi:
                    resp.render_body()
                else:
                    # the call site is synchronous here; the stock JSON handler never suspends, so
                    # the coroutine is simply run to its end (equivalent to `await resp.render_body()`)
                    coro = resp.render_body()
                    try:
                        coro.send(None)
                    except StopIteration:
                        pass
                    else:
                        coro.close()
            else:
                resp.data = b'stale data'
            if stale_stream:
                resp.stream = _StaleStream() if not asgi else _stale_agen()
            if pre_vary:
                resp.set_header('Vary', pre_vary)
            if pre_same:
                # headers of the names the error brings along were already set earlier in the request:
                # the error's own values replace them
                resp.set_header('X-Err', 'set before the error')
                resp.set_header('Retry-After', '99')
                resp.set_header('X-St', 'set before the status')
            raised['site'] = site
            raise the_exc
        return go

    def mk_handler(k):
        beh = behaviours[k]

        def body(req, resp, ex):
            if req.get_header('X-Req') != 'P':      # the preliminary request is not under observation
                calls.append((k, type(ex).__name__, (resp.text, resp.data, resp.media)))
            if beh in ('raise_http', 'raise_status'):
                # what the handler wrote before it changed its mind must not survive
                ak = stale_kind          # which of the three the handler leaves behind
                if ak == 0:
                    resp.text = 'abandoned by the handler'
                elif ak == 1:
                    resp.data = b'abandoned by the handler'
                else:
                    resp.media = {'abandoned': 'by the handler'}
            if beh == 'raise_http':
                e2 = falcon.HTTPError(_status_of(err2), title=err2['title'], description=err2['description'],
                                      headers=err2['headers'], href=err2['href'],
                                      href_text=err2['href_text'], code=err2['code'])
                if audit_render:
                    # the handler renders a more detailed version of the error for its own records
                    # (with the app's JSON handler), then raises the instance as the client may see it
                    keep = (e2.title, e2.description)
                    e2.title, e2.description = 'internal title', 'internal detail, not for clients'
                    e2.to_json(resp.options.media_handlers.get('application/json'))
                    e2.title, e2.description = keep
                raise e2
            if beh == 'raise_status':
                raise falcon.HTTPStatus(st2['status'], headers=st2['headers'], text=st2['text'])
            resp.status = 299
            resp.text = 'handled:%d' % k
        if asgi:
            async def handler(req, resp, ex, params):
                body(req, resp, ex)
        else:
            def handler(req, resp, ex, params):
                body(req, resp, ex)
        return handler

    handlers = [mk_handler(k) for k in range(n_handlers)]

    class RenderFail(Exception):
        pass

    def pre_exc():
        return builtin_exc(pre_kind)

    def extra(app, st):
        if pre_kind:
            if asgi:
                class Pre(object):
                    async def on_get(self, req, resp):
                        raise pre_exc()
            else:
                class Pre(object):
                    def on_get(self, req, resp):
                        raise pre_exc()
            app.add_route('/pre', Pre())
            st.add_lane('P', [], [], lambda site: None)
        app.resp_options.xml_error_serialization = xml_on
        if custom_fast:
            def custom_dumps(m):
                if doc_fail and raised.get('armed'):
                    raised['doc'] = raised.get('doc', 0) + 1
                    raise RuntimeError('the document serializer failed')
                return 'CUSTOM:' + json.dumps(m, sort_keys=True)
            app.resp_options.media_handlers['application/x-custom'] = falcon.media.JSONHandler(dumps=custom_dumps)
            raised['armed'] = True       # JSONHandler probes dumps() once when it is constructed
        elif custom_on:
            app.resp_options.media_handlers['application/x-custom'] = CustomHandler()
        for k, cl in regs:
            target = tuple(ns[c] for c in cl) if len(cl) > 1 else ns[cl[0]]
            app.add_error_handler(target, handlers[k])
        if raise_site == 'render' and render_kind == 'media':
            app.resp_options.media_handlers['application/x-fail'] = FailingHandler(lambda: _raise_now())

    def _raise_now():
        raised['site'] = 'render'
        return the_exc

    # responder sets up the rendering failure when the raise site is 'render'
    def responder_act(site):
        a = act(site)
        if a is not None:
            return a
        if site == 'responder' and raise_site == 'render':
            def setup(req, resp):
                if render_kind == 'media':
                    resp.content_type = 'application/x-fail'
                    resp.media = {'will': 'fail'}
                elif render_kind == 'text':
                    resp.text = 'caf\udce9'
                    raised['site'] = 'render'
                else:
                    resp.context.fail_render = True
            return setup
        return None

    response_type = None
    if raise_site == 'render' and render_kind == 'render_body':
        base = falcon.asgi.Response if asgi else falcon.Response
        if asgi:
            class FailResp(base):
                async def render_body(self):
                    if getattr(self.context, 'fail_render', False):
                        self.context.fail_render = False
                        raised['site'] = 'render'
                        raise the_exc
                    return await super().render_body()
        else:
            class FailResp(base):
                def render_body(self):
                    if getattr(self.context, 'fail_render', False):
                        self.context.fail_render = False
                        raised['site'] = 'render'
                        raise the_exc
                    return super().render_body()
        response_type = FailResp

    trace, resp_args = [], []

    def factory(pause):
        return Stack(plan, asgi, responder_act, trace, resp_args, pause=pause, extra_setup=extra,
                     response_type=response_type)

    hdrs = [('Accept', accept)] if accept is not None else []
    if asgi:
        conn, st, finished, app_exc, sig = run_asgi(ctx, factory, '/r/x', headers=hdrs,
                                                    pre='/pre' if pre_kind else None,
                                                    unreadable_body=unreadable)
        mon = conn.monitor
        status_line = None
        status, headers, body = mon.status, [(n.decode('latin-1'), v.decode('latin-1'))
                                             for n, v in (mon.headers or [])], mon.body
        ctx.sched_key = 'A' + sig
        if not finished:
            ctx.violate('errors.hang', 'request did not complete')
            return
        mviol = mon.violations
    else:
        ex, st = run_wsgi(ctx, factory, '/r/x', headers=hdrs, pre='/pre' if pre_kind else None,
                          unreadable_body=unreadable)
        status, headers, body = ex.status_code, list(ex.headers or []), ex.body
        status_line = ex.status
        app_exc = ex.app_exc
        ctx.sched_key = 'W'
        mviol = ex.violations
    ctx.sched_key += '|%s' % raise_site
    for oid, msg in mviol:
        ctx.violate(oid, msg)
    ctx.event('resp', status, len(body), calls)
    stack = 'asgi' if asgi else 'wsgi'
    if app_exc is not None:
        sk = ('none' if raise_site is None else 'render' if raise_site == 'render' else
              'response_mw' if raise_site.endswith('.response') else 'hook' if raise_site.startswith('hook')
              else 'responder' if raise_site == 'responder' else 'mw')
        try:
            shown = repr(app_exc)
        except Exception:
            shown = '<%s with a broken __repr__>' % type(app_exc).__name__
        ctx.violate('errors.escaped', 'exception %s escaped the app callable (raised %s at %s)' % (
            shown, raise_cls, raise_site), site=sk, stack=stack, doc_fault=bool(raised.get('doc')))
        return
    if raised.get('doc'):
        # the serializer of the negotiated error document raised: "any other Exception" -> 500
        ctx.probe('error_document_serializer_failed')
        ctx.ch.note_fired('document_serializer_raises')
        ctx.nontrivial = True
        ctx.ops_done = 1
        # (a second failure inside the render window itself only has to stay inside the app:
        # the framework then sends the first error's status with an empty body)
        generic_custom = any('Exception' in cl for _k, cl in regs)   # RuntimeError's handler is the app's own
        if status != 500 and raise_site != 'render' and not generic_custom:
            ctx.violate('errors.rendering.status', 'the serializer of the error document raised; status is %r, '
                        'not 500' % (status,), kind='doc_fault', stack=stack)
        return
    if raise_site is None or 'site' not in raised:
        if status != 200:
            ctx.violate('errors.rendering.status', 'no exception raised but status %r' % (status,))
        return
    ctx.nontrivial = True
    ctx.ops_done = 1
    site_kind = ('render' if raise_site == 'render' else 'response_mw' if raise_site.endswith('.response')
                 else 'hook' if raise_site.startswith('hook') else 'responder' if raise_site == 'responder'
                 else 'mw')
    ctx.probe('raised_in_' + site_kind)
    in_render = raise_site == 'render'

    # ---- which handler? ---------------------------------------------------------
    registry = {}
    for k, cl in regs:
        for c in cl:
            registry[ns[c]] = k
    chosen = None
    for klass in type(the_exc).__mro__[:-1]:
        if klass in registry:
            chosen = ('custom', registry[klass])
            break
        if klass is falcon.HTTPError:
            chosen = ('default_http', None)
            break
        if klass is falcon.HTTPStatus:
            chosen = ('default_status', None)
            break
        if klass is Exception:
            chosen = ('default_python', None)
            break
    sig = {'site': site_kind, 'stack': stack}
    first_calls = [c for c in calls]
    if chosen[0] == 'custom':
        ctx.probe('custom_handler')
        if not first_calls or first_calls[0][0] != chosen[1]:
            ctx.violate('errors.handler_choice', 'raised %s (mro %s): handler %r should run (registrations %r), '
                        'handlers called: %r' % (raise_cls, [k.__name__ for k in type(the_exc).__mro__[:-2]],
                                                 chosen[1], regs, [c[0] for c in first_calls]), **sig)
            return
        if first_calls[0][2] != (None, None, None):
            ctx.violate('errors.reset_before_handler', 'handler entered with text/data/media = %r' % (
                first_calls[0][2],), **sig)
        if len(first_calls) > 1:
            ctx.violate('errors.handler_choice', 'handlers called more than once: %r' % (first_calls,), **sig)
        beh = behaviours[chosen[1]]
        if beh == 'set':
            want = ('set', 299, 'handled:%d' % chosen[1])
        elif beh == 'raise_http':
            ctx.probe('handler_raised_http')
            want = ('http', err2, None)
        else:
            ctx.probe('handler_raised_status')
            want = ('status', st2, None)
    else:
        if first_calls:
            ctx.violate('errors.handler_choice', 'raised %s: the %s handler should run, but custom handlers '
                        '%r were called (registrations %r)' % (raise_cls, chosen[0], [c[0] for c in first_calls],
                                                               regs), **sig)
            return
        ctx.probe(chosen[0] + '_handler')
        if chosen[0] == 'default_http':
            ea = dict(err_args)
            if raise_cls == 'HTTPNotFound':
                ea['status'] = 404
                ea['reason'] = None         # the class fixes its status line
            if raise_cls in BUILTIN:
                ea = {'status': BUILTIN[raise_cls][0], 'title': None, 'description': None, 'code': None,
                      'href': None, 'href_text': None, 'headers': dict(BUILTIN[raise_cls][1])}
            want = ('http', ea, None)
        elif chosen[0] == 'default_status':
            want = ('status', st_args, None)
        else:
            want = ('http', {'status': 500, 'title': None, 'description': None, 'code': None, 'href': None,
                             'href_text': None, 'headers': None}, None)

    # ---- rendering ----------------------------------------------------------------
    hl = [(n.lower(), v) for n, v in headers]
    # the error document reaches the client only if its framing is right: a declared length that
    # differs from the bytes handed to the server truncates (or stalls) the body on the wire
    cls_ = [v for n, v in hl if n == 'content-length']
    if cls_ and (body or status not in (100, 101, 204, 304)) and \
            (len(cls_) != 1 or cls_[0] != str(len(body))):
        ctx.violate(('errors.render_window.body' if in_render else 'errors.rendering.body'),
                    'Content-Length %r declared for an error response of %d body bytes %r' % (
                        cls_, len(body), body[:60]), kind='framing', **sig)
    if pre_kind:
        ctx.probe('pre_request')
        own = set(['content-type', 'content-length', 'vary'])
        if pre_same:
            own |= {'x-err', 'retry-after', 'x-st'}     # set by this request itself before the raise
        for src in (want[1] if want[0] in ('http', 'status') else None,):
            if isinstance(src, dict):
                hh = src.get('headers')
                for n, _v in (hh.items() if isinstance(hh, dict) else (hh or [])):
                    own.add(n.lower())
        strangers = sorted(set(n for n, _v in hl) - own)
        if strangers:
            ctx.violate('errors.rendering.headers', 'response carries header(s) %r that belong to neither this '
                        'error nor this request (an earlier request on the app ended in %s)' % (
                            strangers, pre_kind), kind='unexpected', **sig)
    body_oracle = 'errors.render_window.body' if in_render else 'errors.rendering.body'
    if want[0] == 'set':
        if status != 299:
            ctx.violate('errors.rendering.status', 'handler set status 299, response has %r' % (status,), **sig)
        elif body != want[2].encode():
            ctx.violate(body_oracle, 'handler set text %r, body is %r' % (want[2], body), kind='handler_text', **sig)
        return
    if want[0] == 'status':
        sa = want[1]
        if status != sa['status']:
            ctx.violate('errors.rendering.status', 'HTTPStatus %r rendered as %r' % (sa['status'], status), **sig)
            return
        for n, v in (sa['headers'] or {}).items():
            if (n.lower(), v) not in hl:
                ctx.violate('errors.rendering.headers', 'HTTPStatus header %r missing' % (n,), **sig)
        bodiless = status in (204, 304) or 100 <= status < 200
        want_body = b'' if bodiless or sa['text'] is None else sa['text'].encode()
        if stale_stream and want_body == b'' and body == b'stale stream':
            pass      # the statement discards text/data/media only; a stream set earlier is not covered
        elif body != want_body:
            ctx.violate(body_oracle, 'HTTPStatus text %r rendered as %r' % (sa['text'], body), kind='status_text', **sig)
        return
    ea = want[1]
    if status != ea['status']:
        ctx.violate('errors.rendering.status', 'HTTPError %r rendered with status %r' % (ea['status'], status), **sig)
        return
    if not asgi and ea.get('reason') and status_line is not None \
            and status_line != _status_of(ea):
        # "an HTTP error produces its own status": on WSGI that is the whole status line
        ctx.violate('errors.rendering.status', 'HTTPError with status %r rendered with status line %r' % (
            _status_of(ea), status_line), kind='status_line', **sig)
        return
    eh = ea['headers']
    for n, v in (eh.items() if isinstance(eh, dict) else (eh or [])):
        if n.lower() == 'vary':
            have = [t.strip().lower() for hn, hv in hl if hn == 'vary' for t in hv.split(',')]
            if not all(t.strip().lower() in have for t in v.split(',')):
                ctx.violate('errors.rendering.headers', 'HTTPError Vary %r lost: %r' % (v, have), **sig)
        elif (n.lower(), v) not in hl:
            ctx.violate('errors.rendering.headers', 'HTTPError header %r missing in %r' % (n, hl), **sig)
    vary_tokens = [t.strip().lower() for n, v in hl if n == 'vary' for t in v.split(',')]
    if 'accept' not in vary_tokens:
        ctx.violate('errors.rendering.vary', 'Vary does not list Accept (Vary tokens %r, error headers %r, '
                    'pre-set Vary %r)' % (vary_tokens, eh, pre_vary), **sig)
    # reference to_dict()
    title = ea['title'] or falcon.code_to_http_status(_status_of(ea))
    ref = {'title': title}
    if ea['description'] is not None:
        ref['description'] = ea['description']
    if ea['code'] is not None:
        ref['code'] = ea['code']
    if ea['href']:
        ref['link'] = {'text': ea['href_text'] or 'Documentation related to this error', 'rel': 'help',
                       'href': None}
    fmt = expected_format(accept, xml_on, custom_on)
    ctype = [v for n, v in hl if n == 'content-type']
    if fmt is None:
        ctx.probe('no_body_negotiated')
        if stale_stream and body == b'stale stream':
            return    # see above: an earlier stream is outside the reset clause
        if body != b'':
            ctx.violate(body_oracle, 'client accepts %r: expected no body, got %r' % (accept, body[:80]),
                        kind='unexpected_body', **sig)
        return
    got = None
    try:
        if fmt == 'json':
            ctx.probe('json_body')
            got = json.loads(body.decode('utf-8'))
        elif fmt == 'custom':
            ctx.probe('custom_media_body')
            if body.startswith(b'CUSTOM:'):
                got = json.loads(body[7:].decode('utf-8'))
        else:
            ctx.probe('xml_body')
            root = ET.fromstring(body)
            got = {}
            for child in root:
                if child.tag == 'link':
                    got['link'] = {c.tag: (c.text or '') for c in child}
                elif child.tag == 'code':
                    got['code'] = int(child.text)
                else:
                    got[child.tag] = child.text or ''
    except Exception as ex:
        ctx.violate(body_oracle, '%s body does not decode (%r): %r' % (fmt, ex, body[:120]), kind='undecodable',
                    fmt=fmt, **sig)
        return
    if got is None:
        ctx.violate(body_oracle, '%s body expected, got %r' % (fmt, body[:120]), kind='wrong_format', fmt=fmt, **sig)
        return
    # href: compare after decoding (falcon percent-encodes it)
    if 'link' in ref:
        if not isinstance(got.get('link'), dict):
            ctx.violate(body_oracle, 'link missing in %r' % (got,), kind='link', fmt=fmt, **sig)
            return
        href = got['link'].get('href')
        try:
            href.encode('ascii')
            ascii_ok = True
        except Exception:
            ascii_ok = False
        if not ascii_ok or falcon.uri.decode(href, unquote_plus=False) != ea['href']:
            ctx.violate(body_oracle, 'href %r does not decode to %r' % (href, ea['href']), kind='href', fmt=fmt, **sig)
            return
        ref['link']['href'] = href
    if got != ref:
        ctx.violate(body_oracle, '%s body decodes to %r, to_dict() is %r' % (fmt, got, ref), kind='content',
                    fmt=fmt, **sig)
    want_ct = {'json': 'application/json', 'xml': None, 'custom': 'application/x-custom'}[fmt]
    if want_ct and not (ctype and ctype[0].startswith(want_ct)):
        ctx.violate('errors.rendering.content_type', 'content-type %r for a %s body' % (ctype, fmt), fmt=fmt, **sig)
