#!/bin/sh
# confirm_seeded.sh <out-dir e.g. /tmp/seeded-out/C18-1> <worktree> <Cxx> [check args...]
# 1. in the scratch worktree: patch applies, demo fails with it, suite passes with it, demo passes without it
# 2. against /repo: apply, run the registered quick check (expect VIOLATION), revert
D=$1; WT=$2; P=$3; shift 3
set -u
echo "== $D"
git -C $WT checkout -q -- . && git -C $WT apply --check $D/patch.diff || { echo "PATCH DOES NOT APPLY"; exit 3; }
(cd $WT && /venv/bin/python $D/demo.py >/dev/null 2>&1); echo "demo clean rc=$?"
git -C $WT apply $D/patch.diff
(cd $WT && /venv/bin/python $D/demo.py >/dev/null 2>&1); echo "demo patched rc=$?"
if [ "${SKIP_SUITE:-0}" != 1 ]; then
  (cd $WT && /venv/bin/python -m pytest -q -p no:cacheprovider --timeout=900 --continue-on-collection-errors 2>&1 | tail -1)
fi
if [ "${USE_SRC:-0}" = 1 ]; then
  # leave /repo alone (other checks may be running against it): check the patched worktree
  (cd /verif && ./check $P --src $WT --no-evidence --replay-dir /tmp/seeded-replays "$@" 2>&1 | grep "^oracle\|^VIOLATION\|^runs\|HARNESS" | cut -c1-200 | head -12)
  git -C $WT checkout -q -- .
  exit 0
fi
git -C $WT checkout -q -- .
git -C /repo apply $D/patch.diff || { echo "does not apply to /repo"; exit 3; }
(cd /verif && ./check $P --no-evidence --replay-dir /tmp/seeded-replays "$@" 2>&1 | grep "^oracle\|^VIOLATION\|^runs\|HARNESS" | cut -c1-200 | head -12)
git -C /repo checkout -q -- .
git -C /repo status --short | head -3
