#!/bin/sh
# Determinism self-test (DESIGN section 8): every property's per-run event-log
# digests and choice lists must be identical across fresh interpreters, hash
# seeds and worker counts. usage: tools/selftest_determinism.sh [runs=1500] [props...]
cd "$(dirname "$0")/.."
N=${1:-1500}; [ $# -gt 0 ] && shift
PROPS=${*:-C01 C03 C04 C05 C07 C12 C13 C14 C16 C17 C18 C19}
D=$(mktemp -d /tmp/detsim-selftest-XXXXXX)
rc=0
for p in $PROPS; do
  [ -f props/$(echo $p | tr A-Z a-z).py ] || { echo "$p: (no harness yet)"; continue; }
  DETSIM_DUMP_DIGESTS=$D/$p.a PYTHONHASHSEED=0 ./check $p --runs $N --jobs 16 --no-evidence --no-shrink --replay-dir $D/r >/dev/null 2>&1
  DETSIM_DUMP_DIGESTS=$D/$p.b PYTHONHASHSEED=1 ./check $p --runs $N --jobs 4 --no-evidence --no-shrink --replay-dir $D/r >/dev/null 2>&1
  DETSIM_DUMP_DIGESTS=$D/$p.c PYTHONHASHSEED=12345 ./check $p --runs $N --jobs 1 --no-evidence --no-shrink --replay-dir $D/r >/dev/null 2>&1
  if cmp -s $D/$p.a $D/$p.b && cmp -s $D/$p.a $D/$p.c; then
    echo "$p: deterministic ($(wc -l < $D/$p.a) runs x 3 configurations identical)"
  else
    echo "$p: NONDETERMINISM"; diff $D/$p.a $D/$p.b | head -5; diff $D/$p.a $D/$p.c | head -5; rc=1
  fi
done
rm -rf "$D"
exit $rc
