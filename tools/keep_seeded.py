#!/venv/bin/python
"""keep_seeded.py <src-dir> <status> <oracles,comma> [note] -- copy a confirmed seeded change into /verif/seeded/<id>/"""
import json, os, shutil, sys
src, status, oracles = sys.argv[1], sys.argv[2], sys.argv[3]
note = sys.argv[4] if len(sys.argv) > 4 else ''
name = os.path.basename(src.rstrip('/'))
dst = os.path.join('/verif/seeded', name)
os.makedirs(dst, exist_ok=True)
for f in ('patch.diff', 'demo.py'):
    shutil.copy(os.path.join(src, f), os.path.join(dst, f))
meta = json.load(open(os.path.join(src, 'meta.json')))
meta['confirmed_by_me'] = ('scratch worktree: patch applies, demo exits 0 on the clean tree and non-zero with the patch, '
                           'full repository suite with the patch: 3440 passed / 1 pre-existing collection error; '
                           'then `git -C /repo apply patch.diff; ./check %s --tier quick; git -C /repo checkout -- .`' % meta.get('property'))
meta['check_result'] = status
meta['caught_by_oracles'] = [o for o in oracles.split(',') if o]
if note:
    meta['note'] = note
json.dump(meta, open(os.path.join(dst, 'meta.json'), 'w'), indent=1)
print('kept', dst, status)
