#!/venv/bin/python
"""Replace the seeded-changes table of DESIGN.md (section 10.4) with the current one."""
import re, subprocess
p = '/verif/DESIGN.md'
s = open(p).read()
table = subprocess.check_output(['/venv/bin/python', '/verif/tools/seeded_table.py']).decode()
lines = s.split('\n')
start = next(i for i, l in enumerate(lines) if l.startswith('| id | change | needs, to manifest'))
end = start
while end < len(lines) and lines[end].startswith('|'):
    end += 1
lines[start:end] = table.rstrip('\n').split('\n')
open(p, 'w').write('\n'.join(lines))
print('table rows:', len(table.strip().split('\n')) - 2)
