#!/venv/bin/python
"""For every 'fixed' entry of known_findings.json: reverse-apply its commit to the /repo
working tree, run the property's quick check, expect a VIOLATION, restore the tree.
(A fixed entry suppresses nothing: the defect must be reported again if it returns.)"""
import json, subprocess, sys
d = json.load(open('/verif/known_findings.json'))
bad = 0
for f in d['findings']:
    if f['status'] != 'fixed':
        continue
    c = f['commit']
    diff = subprocess.check_output(['git', '-C', '/repo', 'diff', c + '^', c])
    st = subprocess.check_output(['git', '-C', '/repo', 'status', '--porcelain', '--untracked-files=no']).decode().strip()
    if st:
        print('REPO NOT CLEAN', st); sys.exit(2)
    p = subprocess.run(['git', '-C', '/repo', 'apply', '-R', '-'], input=diff)
    if p.returncode != 0:
        print('%-40s cannot reverse-apply (later commits touch the same lines)' % f['id']); continue
    try:
        r = subprocess.run(['/verif/check', f['property'], '--no-evidence', '--no-shrink', '--replay-dir', '/tmp/verify-fixes-replays'],
                           capture_output=True, text=True)
        oracles = sorted(set(l.split()[0][7:] for l in r.stdout.splitlines() if l.startswith('oracle=')))
        ok = r.returncode == 1
        print('%-40s %s rc=%d %s' % (f['id'], 'REPORTED AGAIN' if ok else 'NOT REPORTED', r.returncode, ','.join(oracles)[:90]))
        if not ok:
            bad += 1
    finally:
        subprocess.run(['git', '-C', '/repo', 'checkout', '--', '.'])
subprocess.run(['rm', '-rf', '/tmp/verify-fixes-replays'])
sys.exit(1 if bad else 0)
