#!/bin/sh
# Soundness soak (DESIGN section 8): every quick check under many VERIF_SEED values on the
# unchanged tree; prints one line per (property, seed) and a summary. No evidence is written.
# usage: tools/soak.sh [first_seed=100] [count=20] [props...]
cd "$(dirname "$0")/.."
A=${1:-100}; N=${2:-20}; [ $# -gt 0 ] && shift; [ $# -gt 0 ] && shift
PROPS=${*:-C01 C03 C04 C05 C07 C12 C13 C14 C16 C17 C18 C19}
D=$(mktemp -d /tmp/detsim-soak-XXXXXX)
bad=0
for p in $PROPS; do
  s=$A
  while [ $s -lt $((A+N)) ]; do
    out=$(VERIF_SEED=$s ./check $p --no-evidence --replay-dir $D/$p 2>&1)
    rc=$?
    if [ $rc -ne 0 ]; then bad=$((bad+1)); echo "ALARM $p seed=$s rc=$rc"; echo "$out" | grep "^oracle\|VIOLATION\|HARNESS" | head -5; mkdir -p /verif/replays/soak; cp -r $D/$p /verif/replays/soak/ 2>/dev/null; fi
    s=$((s+1))
  done
  echo "$p: seeds $A..$((A+N-1)) done"
done
rm -rf "$D"
echo "soak finished: $bad alarm(s)"
[ $bad -eq 0 ]
