#!/venv/bin/python
"""Regenerates MANIFEST.json from the table below (kept valid at all times)."""
import json
import os

ROOT = os.path.dirname(os.path.dirname(os.path.abspath(__file__)))

TECH = 'deterministic simulation with fault injection: '

CHECKS = {
    'C18': dict(
        level='exploration', ref='DESIGN.md section 4 (C18)',
        technique=TECH + 'seeded search over interleavings of server deliveries / receive wake-ups / send acks '
                  'with application steps on a custom asyncio loop; invariants checked after every step and at quiescence',
        text='Seeded exploration of schedules: real falcon.asgi.App + WebSocket + _BufferedReceiver run on a '
             'simulated event loop; every interleaving decision and fault is drawn from one recorded choice list; '
             'FIFO/exactly-once, bound, stop-pull, disconnect order/promptness, lost wake-up (at quiescence), '
             'pump liveness and cleanup invariants; the application side may use a second task (background senders, a '
             'background receiver racing with close). Sampling of a large schedule space, not exhaustive.',
        note='Trusts CPython asyncio Task/Future/wait, the FIFO ready-queue assumption, and the fake ASGI server '
             '(queue-like receive). Strict bound N is a recorded known finding; N+1 is enforced.'),
    'C17': dict(
        level='exploration', ref='DESIGN.md section 4 (C17)',
        technique=TECH + 'seeded search over responder scripts x client scripts x send-failure points x schedules '
                  'on a custom asyncio loop; independent ASGI WebSocket protocol monitor + (state, op) error model + close-code model',
        text='Seeded exploration: real falcon.asgi.App WebSocket path (routing, ws middleware, error handlers, '
             'WebSocket state machine) driven by generated responder scripts (incl. misuse) against a fake ASGI server '
             'written from the spec; every outgoing event is checked by an independent protocol monitor, every '
             'operation outcome against a documented (state, op) -> error model, the final close obligation and close '
             'code against a reference. Send failures are injected at chosen send indices. Sampling, not exhaustive.',
        note='Trusts the fake ASGI server/monitor as a reading of ASGI WebSocket spec 2.0-2.4 and the harness model of the '
             'documented errors; when several error conditions hold at once any documented error is accepted; after an '
             'injected send failure only the monitor and send-after-lost oracles remain in force.'),
    'C19': dict(
        level='exploration', ref='DESIGN.md section 4 (C19)',
        technique=TECH + 'baton-passing real threads pre-empted at source-line granularity (sys.settrace) with a '
                  'simulator-owned router lock, and ASGI tasks interleaved at every receive/send/pause on a custom '
                  'asyncio loop; each concurrent response compared with its solo run',
        text='Seeded schedule exploration: 2-3 requests race through one generated WSGI app as real threads of which '
             'exactly one runs at a time (<=4 seeded pre-emptions at line granularity inside falcon and the generated '
             'finder; cold / pre-compiled / warmed router; the compile lock and every threading.Lock the application '
             'creates while it is built are simulator-owned, so contention and deadlock are observed), or interleave as tasks through one ASGI app at every receive, send and pause. Every response '
             'and responder-side observation must equal the solo run on a fresh identical app.',
        note='Pre-emption granularity is a source line of pure-Python falcon; races inside one bytecode line or inside '
             'C code (lru_cache, dict ops) are not explored. Generated apps are order-independent by construction.'),
    'C07': dict(
        level='exploration', ref='DESIGN.md section 4 (C07)',
        technique=TECH + 'seeded search over server chunkings / event shapes / short reads / early EOF / pipelined bytes / '
                  'disconnect positions / delivery timing x operation histories; byte-conservation oracle with over-read probe',
        text='Seeded exploration: request-body streams obtained through real falcon.App / falcon.asgi.App requests; a fake '
             'wsgi.input (exact or short reads, early EOF, pipelined bytes of the next request as an over-read probe) and '
             'scripted ASGI http.request events (arbitrary chunking, empty/oversized chunks, missing keys, http.disconnect at '
             'every position, delivery timing chosen by the simulator). A history of <=8 stream operations runs inside a '
             'responder; oracle = prefix, completeness at reported end-of-stream, sized-read cap, never asking the server beyond '
             'Content-Length, tell/eof consistency, no blocking after a disconnect.',
        note='End-of-stream is taken as reported when eof is true, a read returns b"" or iteration stops; ASGI histories '
             'respect the documented restriction not to mix read() and iteration on a partially consumed body; tell() is '
             'compared only on histories without exhaust()/close().'),
    'C03': dict(
        level='fault_enumeration', ref='DESIGN.md section 4 (C03)',
        technique=TECH + 'per sampled stack, an action (complete / HTTP error / handled or unhandled app error) is injected '
                  'at every call site in turn (single-site sweep) and at random site subsets; exact call-trace equality '
                  'against a reference interpreter; ASGI under the simulated loop; lifespan handler failures swept',
        text='Fault enumeration over call sites: for each sampled stack (components x method subsets x sync/*_async x hooks x '
             'independent/dependent x routed/unrouted x WSGI/ASGI) every (site, action) pair is injected in its own run, '
             'plus random multi-site assignments; the recorded call trace, the (resource, req_succeeded) arguments of every '
             'process_response and the final status must equal a 60-line reference interpreter of the documented '
             'discipline. Lifespan: handler failure swept over every handler; order/events/termination checked.',
        note='Stacks are sampled (<=4 components, <=3 hooks); within a sampled stack the single-site sweep is complete up '
             'to the sweep cap. Hooks never set resp.complete; handlers return or raise HTTPError/HTTPStatus only.'),
    'C04': dict(
        level='fault_enumeration', ref='DESIGN.md section 4 (C04)',
        technique=TECH + 'per sampled (exception hierarchy, handler registration history, stack) the raise is injected at '
                  'every call site and in the body-rendering window in turn; handler identity, reset-before-handler, '
                  'escape and rendering oracles; ASGI under the simulated loop',
        text='Fault enumeration over raise sites: generated exception class hierarchies (single/multiple inheritance, rooted '
             'in Exception/HTTPError/HTTPStatus), registration histories (classes, tuples, re-registrations, defaults '
             'overridden), seeded unicode error fields, Accept headers, XML on/off, custom media type; the exception is raised '
             'at each middleware method, hook, responder and in the rendering window (failing media serializer, raising '
             'render_body) in its own run; handlers may raise HTTPError/HTTPStatus. Oracle: MRO/latest-registration model of '
             'the chosen handler (recorded identity), text/data/media reset at handler entry, nothing escapes, status/'
             'headers/Vary and body decoding (JSON/XML/custom) to exactly to_dict().',
        note='Accept headers come from a small unambiguous grammar (general negotiation is C11, not claimed); strings are '
             'restricted to XML-representable characters; handlers raising non-HTTP exceptions are not generated.'),
    'C05': dict(
        level='fault_enumeration', ref='DESIGN.md section 4 (C05)',
        technique=TECH + 'per sampled responder the fault point is swept: response stream raises / yields empty or None at '
                  'read i, ASGI send() fails at send j, WSGI server abandons iteration after chunk j, SSE client disconnect; '
                  'independent PEP 3333 and ASGI HTTP monitors, precedence/length/type model, stream close-count',
        text='Fault enumeration over stream and send failure points: generated responders (status forms x method x any '
             'subset of text/data/media/stream kinds, SSE, preset headers, cookies, custom Response class) run on a real '
             'falcon.App (with/without wsgi.file_wrapper) and falcon.asgi.App (simulated loop, send back-pressure); each '
             'fault point gets its own run. Oracles: protocol monitors written from PEP 3333 / ASGI spec, body precedence '
             'against a reference renderer, Content-Length equals bytes sent, no body bytes for HEAD/1xx/204/304, no '
             'framework-supplied Content-Type on 204/304 and one elsewhere, close() exactly once after streaming began.',
        note='With media set, preset Content-Types are limited to ones a default handler serves; SSE is generated alone; '
             'after a fault the delivered bytes must be a prefix of the expected body (no final event demanded).'),
    'C12': dict(
        level='exploration', ref='DESIGN.md section 4 (C12)',
        technique=TECH + 'seeded documents round-tripped through the real response and request paths under seeded body '
                  'chunkings/delivery timing; truncation (early EOF / http.disconnect) and single-byte corruption swept '
                  'over positions; stream-access counter sampled around every get_media()/media access',
        text='Seeded exploration with a fault sweep: a generated JSON document or form mapping is serialized via resp.media '
             'on a real app, the bytes are sent back (chunked, delayed, truncated, corrupted or empty) and a history of '
             '<=5 get_media()/get_media(default_when_empty=)/media accesses runs in the responder. Oracles: strict '
             'round-trip equality, later calls return the same object / re-raise the same error instance without any '
             'further receive()/read on the stream, empty-body semantics incl. uncached defaults, undecodable bodies give '
             'the 400-class MediaMalformedError (and a 400 response when unhandled), on WSGI and ASGI.',
        note='wsgi.input returns a requested read in full (buffered semantics) in this check; documents exclude lone '
             'surrogates, NaN/Inf and a top-level null; a truncated body that is itself a valid document may parse.'),
    'C14': dict(
        level='exploration', ref='DESIGN.md section 4 (C14)',
        technique=TECH + 'seeded search over source chunkings (short reads, empty/1-byte chunks, await points resolved by '
                  'the simulated loop), chunk sizes, delimiters and operation histories incl. nested delimited readers; '
                  'flat-cursor reference model compared operation by operation plus conservation',
        text='Seeded exploration: direct instances of the sync and the async BufferedReader over a source whose per-call '
             'behaviour (short read / exact / EOF; async chunk sizes with an await before each chunk, resumed by an '
             'environment action) is drawn by the simulator; histories of <=10 operations generated from the cursor state, '
             'nested delimit() children followed by the parent resync protocol. Oracle: a flat cursor over data[:max_len] '
             '(per-op equality incl. exception class, conservation, over-read probe, tell/eof), a final drain, hang '
             'detection at quiescence and a deterministic livelock guard (PEP 669 jump counter).',
        note='Sizes are None/-1/>=0; a history ends at the first DelimiterError; nested readers follow the protocol the '
             'code base itself uses; eof-false-at-end is flagged only once an operation had to look past the end.'),
    'C01': dict(
        level='exploration', ref='DESIGN.md section 4 (C01)',
        technique=TECH + 'seeded histories of accepted and rejected add_route calls (every rejection site and depth, '
                  'compile flag) interleaved with lookups; differential oracle against a fresh router fed only the accepted '
                  'prefix, plus an independent depth-first reference walker',
        text='Narrowed claim (see DESIGN 4/C01): the history part of the statement - a rejected template leaves later '
             'lookups unchanged, the lazily swapped finder stays consistent with its side tables across add_route/find '
             'sequences, lookups never raise - is explored by seeded histories of <=10 operations; rejection is treated as '
             'the injected fault (10 rejection sites x first/middle/last segment x fresh/existing prefix). After every '
             'operation the router under test is compared with a fresh router built from the accepted templates only, and '
             'with a reference tree walker written from the statement. The for-all-route-sets x all-paths part appears only '
             'as sampled workload.',
        note='Where the statement is silent (order among multi-field siblings, ambiguous splits, field vs empty string) '
             'the walker returns the set of allowed answers and any member is accepted.'),
    'C16': dict(
        level='exploration', ref='DESIGN.md section 4 (C16)',
        technique=TECH + 'real directory tree observed by a process-wide open() audit hook, io/os fault proxies (open/fstat/'
                  'seek/read errors, short reads), consuming-server read schedule and send failures swept per request; '
                  'containment, slice and status oracles',
        text='Seeded exploration with a fault sweep: add_static_route on real WSGI and ASGI apps over an immutable real tree '
             '(sizes 0..12, sub-directories, an outside directory with secrets, a sibling whose name extends the served '
             'directory); request paths from a traversal grammar (raw and percent-encoded), Range and If-Modified-Since '
             'grammars; disk faults and read/send schedules injected at every opportunity. Every audited open must resolve '
             'inside the directory (or be the fallback file), bodies/206 slices/Content-Range/416/304 must match the file, '
             'injected open errors never yield a 5xx.',
        note='Containment is decided mostly by the workload grammar (input generation); simulation adds the audited real file '
             'system, the error paths and the read-schedule dimension. Weak reading of "names a regular file inside the '
             'directory" by default (VERIF_C16_STRICT=1 selects the strict one).'),
    'C13': dict(
        level='exploration', ref='DESIGN.md section 4 (C13)',
        technique=TECH + 'reference-encoded forms sent through real WSGI and ASGI apps under seeded transport chunkings '
                  '(down to 1 byte, short reads), reader chunk-size and parse-limit knobs, per-part consumption histories; '
                  'truncation at every event edge and single-byte corruption swept; flat reference parser as oracle',
        text='Seeded exploration with a fault sweep: forms from an independent reference encoder (RFC 7578/2046/5987) are '
             'parsed by the real sync and async multipart parsers in the same run, with the transport chunking, reader '
             'chunk size (from the smallest legal value), limits at threshold-1/threshold/threshold+1 and the per-part '
             'consumption pattern drawn by the simulator. Faults: http.disconnect / early EOF at every event edge, single '
             'byte flip/delete/insert. Oracles: exact parts for valid bodies, limits exact at thresholds, 4xx-class parse '
             'error or normal result (never another exception, never a hang) for invalid bodies, no silently wrong parts '
             'where a flat reference parser is unambiguous, WSGI/ASGI agreement.',
        note='After a fault parts are compared only where every reading of the RFCs agrees; one known finding (quoted '
             'boundary containing a comma is answered 415 by media-type matching) is listed in known_findings.json.'),
}

NOT_YET = {p: 'claimed in DESIGN.md; check under construction in this round (not yet registered)' for p in
           ['C01', 'C03', 'C04', 'C05', 'C07', 'C12', 'C13', 'C14', 'C16', 'C17', 'C19'] if p not in CHECKS}

NOT_APPLICABLE = {
    'C02': 'dispatch precedence is a pure function of (app configuration, method, path): no stream, task, thread, clock or fault to simulate',
    'C06': 'equality of two pure request-parsing/response-rendering functions over the input space; the only delivery-dependent slice (body chunking) is covered on both stacks by C07/C12',
    'C08': 'query-string parsing and typed getters are pure string-to-value functions plus a round-trip law: nothing to schedule or inject',
    'C09': 'typed header accessors are pure header-string parsers on one request object used by one caller',
    'C10': 'URI encode/decode are pure total functions on strings',
    'C11': 'content negotiation is a pure function; handler-cache coherence is a sequential mutation history of one in-memory object with no concurrency or fault in the statement (concurrent use of the process-wide caches is exercised by C19)',
    'C15': 'sequential operation histories on one in-memory response object and string encodings: no schedule, I/O or fault dimension',
    'C20': 'CORS policy is a decision table over (configuration, origin, method, outcome); "the responder failed" is an input bit, not an injected fault',
}


def main():
    checks = []
    for pid in sorted(CHECKS):
        c = CHECKS[pid]
        checks.append({
            'property_id': pid,
            'quick_cmd': './check %s --tier quick' % pid,
            'thorough_cmd': './check %s --tier thorough' % pid,
            'evidence_file': 'evidence/%s.json' % pid,
            'replay_cmd_template': './check %s --replay {path}' % pid,
            'engine': 'detsim',
            'level_claimed': {'category': c['level'], 'text': c['text'], 'design_ref': c['ref']},
            'level_note': c['note'],
            'technique': c['technique'],
        })
    na = [{'property_id': k, 'reason': v} for k, v in sorted(NOT_APPLICABLE.items())]
    na += [{'property_id': k, 'reason': v} for k, v in sorted(NOT_YET.items())]
    m = {
        'version': 1,
        'setup_cmd': './setup.sh',
        'hooks': {
            'guard': 'FALCON_VERIF',
            'enable': 'no source hooks: every seam (ASGI receive/send, wsgi.input, event loop, router lock, io/os in static routes) is reachable from outside; checks import a pure-Python mirror of /repo/falcon/**/*.py',
            'baseline_off_cmd': 'cd /repo && /venv/bin/python -m pytest -ra -q -p no:cacheprovider --timeout=900 --continue-on-collection-errors',
            'source_commits': [],
            'add_only': True,
        },
        'engines': [{
            'name': 'detsim',
            'path': 'detsim/',
            'serves_properties': sorted(CHECKS),
            'kind_free_text': 'deterministic simulator: one recorded choice sequence decides workload, schedule and faults; '
                              'virtual-time asyncio loop, fake ASGI/WSGI servers with protocol monitors, baton-passing '
                              'thread scheduler, disk fault proxies, generic choice-sequence shrinker, replay files',
        }],
        'checks': checks,
        'not_applicable': sorted(na, key=lambda x: x['property_id']),
        'notes': 'Exit codes: 0 held on everything explored (KNOWN-FINDING lines possible), 1 VIOLATION, 2 HARNESS-ERROR (never a pass). '
                 'Known findings live in known_findings.json. See DESIGN.md.',
    }
    with open(os.path.join(ROOT, 'MANIFEST.json'), 'w') as f:
        json.dump(m, f, indent=1)
        f.write('\n')


if __name__ == '__main__':
    main()
