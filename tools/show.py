#!/venv/bin/python
import json, sys
for p in sys.argv[1:]:
    d = json.load(open(p))
    print('==', p)
    print(' oracle:', d['oracle'], d.get('sig'))
    print(' msg   :', d['message'])
    print(' plan  :', json.dumps(d['plan'], default=repr))
    print(' sched :', d['schedule'])
    print(' nchoices', len(d['choices']), 'shrink_runs', d.get('shrink_runs'))
