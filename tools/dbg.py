#!/venv/bin/python
"""dbg.py Cxx replay.json -- run a replay in-process and print log + verdicts"""
import os, sys, json
ROOT = os.path.dirname(os.path.dirname(os.path.abspath(__file__)))
sys.path.insert(0, ROOT)
os.chdir(ROOT)
from detsim import mirror
src = os.environ.get('SRC', '/repo')
mirror.activate(src)
from detsim import runner, core
mod = runner.load_prop(sys.argv[1].upper())
d = json.load(open(sys.argv[2]))
ch_list = d['choices']
if os.environ.get('LOG'):
    _ev = core.RunCtx.event
    def _event(self, *a):
        print('  EV', a)
        return _ev(self, *a)
    core.RunCtx.event = _event
res = core.run_case(mod, replay=ch_list, keep_labels=True)
print(json.dumps(res['plan'], default=repr))
print('sched', res['sched_key'])
for v in res['verdicts']:
    print('VERDICT', v)
if res['harness_error']:
    print(res['harness_error'])
