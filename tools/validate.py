#!/usr/bin/env python3-vt
"""Validate MANIFEST.json and evidence/*.json against the schemas."""
import glob, json, sys
import jsonschema
ok = True
ms = json.load(open('/root/.vp/MANIFEST.schema.json'))
es = json.load(open('/root/.vp/EVIDENCE.schema.json'))
try:
    jsonschema.validate(json.load(open('/verif/MANIFEST.json')), ms); print('MANIFEST ok')
except Exception as e:
    ok = False; print('MANIFEST INVALID', e)
for p in sorted(glob.glob('/verif/evidence/*.json')):
    try:
        jsonschema.validate(json.load(open(p)), es); print(p, 'ok')
    except Exception as e:
        ok = False; print(p, 'INVALID', str(e)[:300])
m = json.load(open('/verif/MANIFEST.json'))
for c in m['checks']:
    p = '/verif/' + c['evidence_file']
    try:
        e = json.load(open(p))
        if e['level'] != c['level_claimed']['category'] or e['property_id'] != c['property_id']:
            ok = False; print(p, 'LEVEL/ID MISMATCH', e['level'], c['level_claimed']['category'])
    except Exception as ex:
        ok = False; print(p, 'MISSING', ex)
sys.exit(0 if ok else 1)
