#!/venv/bin/python
"""Print the markdown table of independently seeded changes (DESIGN 10.4)."""
import glob, json, os
rows = []
def _key(d):
    a, b = os.path.basename(d.rstrip('/')).split('-')
    return (a, int(b))


for d in sorted(glob.glob('/verif/seeded/*/'), key=_key):
    m = json.load(open(os.path.join(d, 'meta.json')))
    name = os.path.basename(d.rstrip('/'))
    rows.append('| %s | %s | %s | %s | %s |' % (
        name, (m.get('title') or '').replace('|', '/'), (m.get('needs_to_manifest') or '').replace('|', '/').replace('\n', ' ')[:170],
        m.get('check_result'), ', '.join(m.get('caught_by_oracles', []))[:120]))
print('| id | change | needs, to manifest | result | reported by |')
print('|---|---|---|---|---|')
print('\n'.join(rows))
