#!/bin/sh
# Run the repository's test suite against a pure-Python copy of the working
# tree (no stale cythonized .so), in a scratch dir that is removed afterwards.
# usage: tools/pytest_pure.sh [src=/repo] [pytest args...]
SRC=${1:-/repo}; [ $# -gt 0 ] && shift
D=$(mktemp -d /tmp/falcon-pure-XXXXXX)
rsync -a --exclude='*.so' --exclude='*.c' --exclude='.git' --exclude='__pycache__' --exclude='docs' "$SRC"/ "$D"/
cd "$D" && /venv/bin/python -c "import falcon,sys; assert falcon.__file__.startswith('$D'), falcon.__file__" && \
/venv/bin/python -m pytest -q -p no:cacheprovider --timeout=900 --continue-on-collection-errors "$@" 2>&1 | tail -15
RC=$?
cd /; rm -rf "$D"
exit $RC
