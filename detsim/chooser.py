"""One choice sequence decides everything (DESIGN 3.1).

Generate mode: integers come from random.Random(run_seed) and are recorded.
Replay mode: integers come from a recorded list (value % n; 0 when exhausted).
Nothing else in a run may consult a PRNG, a clock, id() ordering or set order.
"""
import hashlib
import random


def derive_seed(verif_seed, prop, index):
    h = hashlib.sha256(('%s|%s|%s' % (verif_seed, prop, index)).encode()).digest()
    return int.from_bytes(h[:8], 'big')


class Chooser(object):
    __slots__ = ('_rng', '_replay', '_pos', 'choices', 'labels', 'keep_labels',
                 'fault_cfg', 'offered', 'fired', 'probes', 'overrun', '_hybrid')

    def __init__(self, seed=None, replay=None, keep_labels=False):
        if replay is not None:
            self._replay = list(replay)
            self._rng = None
        else:
            self._replay = None
            self._rng = random.Random(seed)
        self._pos = 0
        self._hybrid = False     # replay a prefix, then continue from the PRNG
        self.choices = []
        self.labels = [] if keep_labels else None
        self.keep_labels = keep_labels
        self.fault_cfg = {}      # kind -> (num, den) probability, absent = off
        self.offered = {}
        self.fired = {}
        self.probes = {}
        self.overrun = 0         # replay draws past the end of the list

    # -- primitive ---------------------------------------------------------
    def draw(self, n, label=None):
        """Return an int in [0, n). Smaller means simpler."""
        if n <= 1:
            # still recorded: keeps positions stable under code-path changes
            v = 0
        elif self._replay is not None:
            if self._pos < len(self._replay):
                v = self._replay[self._pos] % n
            elif self._hybrid:
                v = self._rng.randrange(n)
            else:
                v = 0
                self.overrun += 1
        else:
            v = self._rng.randrange(n)
        self._pos += 1
        self.choices.append(v)
        if self.labels is not None:
            self.labels.append(label)
        return v

    # -- helpers -------------------------------------------------------------
    def chance(self, num, den, label=None):
        """True with probability num/den; value 0 (simplest) means False."""
        if num <= 0:
            self.draw(1, label)
            return False
        v = self.draw(den, label)
        return v >= den - num

    def choice(self, seq, label=None):
        return seq[self.draw(len(seq), label)]

    def weighted(self, weights, label=None):
        """Index chosen with the given integer weights; draw 0 -> first
        index with a positive weight."""
        total = 0
        for w in weights:
            total += w
        v = self.draw(total, label)
        acc = 0
        for i, w in enumerate(weights):
            acc += w
            if v < acc:
                return i
        return len(weights) - 1

    def int_between(self, lo, hi, label=None):
        return lo + self.draw(hi - lo + 1, label)

    def small(self, hi, label=None):
        """0..hi biased towards small values (min of two draws)."""
        a = self.draw(hi + 1, label)
        b = self.draw(hi + 1, label)
        return a if a < b else b

    def bytes_from(self, alphabet, n, label=None):
        return bytes(alphabet[self.draw(len(alphabet), label)] for _ in range(n))

    def sublist(self, seq, label=None):
        return [x for x in seq if self.draw(2, label)]

    def split_points(self, total, max_parts, label=None):
        """Return a list of chunk lengths summing to total (may contain 0s)."""
        if total == 0:
            return []
        parts = []
        left = total
        while left > 0 and len(parts) < max_parts - 1:
            k = self.draw(left + 1, label)
            if k == 0 and self.draw(4, label) != 3:
                k = left
            parts.append(k)
            left -= k
        if left:
            parts.append(left)
        return parts

    # -- faults --------------------------------------------------------------
    def enable_fault(self, kind, num, den):
        self.fault_cfg[kind] = (num, den)

    def fault(self, kind):
        """Offer a fault opportunity of `kind`. Counts offered/fired."""
        self.offered[kind] = self.offered.get(kind, 0) + 1
        cfg = self.fault_cfg.get(kind)
        if cfg is None:
            return False
        if self.chance(cfg[0], cfg[1], 'fault:' + kind):
            self.fired[kind] = self.fired.get(kind, 0) + 1
            return True
        return False

    def note_fired(self, kind, n=1):
        self.fired[kind] = self.fired.get(kind, 0) + n

    def probe(self, name, n=1):
        self.probes[name] = self.probes.get(name, 0) + n
