"""Generic choice-sequence reducer (DESIGN 3.10).

Every run is a pure function of its choice list, so shrinking works on the
list: truncate, delete blocks, zero blocks, lower single values. A candidate
is kept iff the run still yields a verdict with the same oracle id (and, when
given, the same signature).
"""
import time


def _same(res, oracle, sig):
    if res.get('harness_error'):
        return False
    for v in res['verdicts']:
        if v['oracle'] == oracle and (sig is None or v['sig'] == sig):
            return True
    return False


def shrink(run, choices, oracle, sig=None, max_runs=2000, max_seconds=60.0):
    """run(choices) -> result dict. Returns (choices, result, n_runs)."""
    t0 = time.monotonic()
    n_runs = [0]
    best = list(choices)
    best_res = run(best)
    n_runs[0] += 1
    if not _same(best_res, oracle, sig):
        return list(choices), best_res, n_runs[0]
    # the run may not have consumed everything
    used = len(best_res['choices'])
    if used < len(best):
        best = best[:used]

    def budget_left():
        return n_runs[0] < max_runs and (time.monotonic() - t0) < max_seconds

    def attempt(cand):
        nonlocal best, best_res
        if not budget_left():
            return False
        n_runs[0] += 1
        res = run(cand)
        if _same(res, oracle, sig):
            # normalise to what was actually consumed (replay pads zeros)
            cons = res['choices']
            cand = list(cons) if len(cons) <= len(cand) else list(cand)
            # strip trailing zeros: replay pads zeros anyway
            while cand and cand[-1] == 0:
                cand.pop()
            best, best_res = cand, res
            return True
        return False

    improved = True
    rounds = 0
    while improved and budget_left() and rounds < 8:
        improved = False
        rounds += 1
        # 1. truncate the tail
        step = max(1, len(best) // 2)
        while step >= 1 and budget_left() and best:
            if step <= len(best) and attempt(best[:len(best) - step]):
                improved = True
                step = min(step, max(1, len(best) // 2))
            else:
                step //= 2
        # 2. delete blocks
        size = max(1, len(best) // 2)
        while size >= 1 and budget_left():
            i = 0
            while i < len(best) and budget_left():
                cand = best[:i] + best[i + size:]
                if len(cand) < len(best) and attempt(cand):
                    improved = True
                else:
                    i += size
            size //= 2
        # 3. zero blocks
        size = max(1, len(best) // 2)
        while size >= 1 and budget_left():
            i = 0
            while i < len(best) and budget_left():
                blk = best[i:i + size]
                if any(blk):
                    cand = best[:i] + [0] * len(blk) + best[i + size:]
                    if attempt(cand):
                        improved = True
                i += size
            size //= 2
        # 4. lower single values
        i = 0
        while i < len(best) and budget_left():
            v = best[i]
            if v > 0:
                lo, hi = 0, v
                # smallest value that still fails (not nec. monotone; best effort)
                while lo < hi and budget_left():
                    mid = (lo + hi) // 2
                    if i < len(best) and attempt(best[:i] + [mid] + best[i + 1:]):
                        hi = mid
                        improved = improved or mid < v
                        if i >= len(best):
                            break
                    else:
                        lo = mid + 1
            i += 1
    final = run(best)
    n_runs[0] += 1
    if not _same(final, oracle, sig):
        # should not happen (determinism); fall back to the original
        return list(choices), run(list(choices)), n_runs[0]
    return best, final, n_runs[0]
