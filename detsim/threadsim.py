"""Deterministic threads (DESIGN 3.5): real threads, exactly one holds the
baton; `sys.settrace` line events inside selected files are pre-emption
points; a bounded (PCT-style) set of pre-emption indices plus the choice of the
next thread come from the Chooser. Locks created through `SimLock` are under
simulator control: a blocked acquirer yields the baton, all-blocked = deadlock.
"""
import sys
import threading


class SimAbort(BaseException):
    """Unwinds a simulated thread (deadlock, step cap). Not an oracle."""


class ThreadSim(object):
    def __init__(self, ch, trace_prefixes, switch_points=(), max_events=200000, record=False,
                 triggers=None):
        """switch_points: global event indices at which to pre-empt (PCT style).
        triggers: {(thread, filename, lineno): set(occurrence numbers)} -- location
        based pre-emption points ("when thread t reaches this line for the k-th
        time"), robust against the threads' event counts shifting.
        record=True keeps the (filename, lineno) sequence of the run in
        `self.locs` so that a pilot can be used to choose triggers."""
        self.ch = ch
        self.record = record
        self.locs = []
        self.triggers = triggers or {}
        self._occ = {}
        self.prefixes = tuple(trace_prefixes)
        self.switch_points = set(switch_points)
        self.max_events = max_events
        self.events = 0                  # pre-emption points seen (global)
        self.switches = 0                # pre-emptive switches performed
        self.forced_switches = 0         # switches forced by a contended lock
        self.trace = []                  # (event index, from, to)
        self.threads = []
        self.go = []
        self.state = []                  # 'new' | 'ready' | 'blocked' | 'done'
        self.results = []
        self.errors = []
        self.current = None
        self.done_evt = threading.Event()
        self.deadlock = False
        self.aborting = False
        self.abort_reason = None
        self._code_cache = {}
        self.lock_waiters = {}
        self.hot_files = {}              # file -> count of switch points hit there
        self.switch_sites = []           # (filename, lineno) where a switch happened

    # -- tracing -----------------------------------------------------------------
    def _want(self, code):
        r = self._code_cache.get(code)
        if r is None:
            fn = code.co_filename
            r = fn == '<string>' or fn.startswith(self.prefixes)
            self._code_cache[code] = r
        return r

    def _global_trace(self, frame, event, arg):
        if self._want(frame.f_code):
            return self._local_trace
        return None

    def _local_trace(self, frame, event, arg):
        if event == 'line':
            self._point(frame)
        return self._local_trace

    def lock_point(self, what, lock):
        """Pre-emption opportunity at a lock boundary (SimLock calls this)."""
        class _F(object):
            pass
        f = _F()

        class _C(object):
            co_filename = '<lock>'
        f.f_code = _C
        f.f_lineno = 1 if what == 'release' else 0
        self._point(f)

    def _point(self, frame):
        self.events += 1
        n = self.events
        fire = False
        if self.record:
            self.locs.append((frame.f_code.co_filename, frame.f_lineno,
                              getattr(frame.f_code, 'co_name', '')))
        if self.triggers:
            key = (self.current, frame.f_code.co_filename, frame.f_lineno)
            want = self.triggers.get(key)
            if want is not None:
                k = self._occ.get(key, 0) + 1
                self._occ[key] = k
                if k in want:
                    fire = True
        if n > self.max_events:
            self._abort('event cap %d' % self.max_events)
            raise SimAbort('event cap')
        if self.aborting:
            raise SimAbort(self.abort_reason)
        if fire or n in self.switch_points:
            me = self.current
            others = [i for i, s in enumerate(self.state) if s == 'ready' and i != me]
            if others:
                j = others[self.ch.draw(len(others), 'switch_to')]
                self.switches += 1
                self.switch_sites.append((frame.f_code.co_filename.rsplit('/', 1)[-1], frame.f_lineno))
                self._switch(me, j)

    # -- baton -------------------------------------------------------------------
    def _switch(self, me, j):
        """Hand the baton from thread `me` to thread `j`; returns when `me`
        gets it back."""
        self.trace.append((self.events, me, j))
        self.go[me].clear()
        self.current = j
        self.go[j].set()
        self.go[me].wait()
        if self.aborting:
            raise SimAbort(self.abort_reason)

    def _abort(self, reason):
        if not self.aborting:
            self.aborting = True
            self.abort_reason = reason
            for i, s in enumerate(self.state):
                if s in ('ready', 'blocked', 'new'):
                    self.go[i].set()

    def _pick_next(self, me):
        """Thread `me` cannot continue (finished or blocked): pass the baton on."""
        ready = [i for i, s in enumerate(self.state) if s == 'ready' and i != me]
        if ready:
            j = ready[self.ch.draw(len(ready), 'next_thread')] if len(ready) > 1 else ready[0]
            return j
        return None

    def _run_thread(self, i, fn):
        self.go[i].wait()
        if self.aborting:
            self.state[i] = 'done'
            self._finish(i)
            return
        sys.settrace(self._global_trace)
        try:
            self.results[i] = fn()
        except SimAbort:
            self.errors[i] = ('abort', self.abort_reason)
        except BaseException as ex:   # noqa: B902 - recorded, judged by the oracle
            self.errors[i] = ('exc', ex)
        finally:
            sys.settrace(None)
            self.state[i] = 'done'
            self._finish(i)

    def _finish(self, i):
        if self.aborting:
            if all(s == 'done' for s in self.state):
                self.done_evt.set()
            return
        j = self._pick_next(i)
        if j is not None:
            self.trace.append((self.events, i, j))
            self.current = j
            self.go[j].set()
            return
        if all(s == 'done' for s in self.state):
            self.done_evt.set()
            return
        # somebody is blocked and nobody can run
        self.deadlock = True
        self._abort('deadlock')

    # -- API ---------------------------------------------------------------------
    def run(self, fns):
        n = len(fns)
        self.go = [threading.Event() for _ in range(n)]
        self.state = ['ready'] * n
        self.results = [None] * n
        self.errors = [None] * n
        self.threads = [threading.Thread(target=self._run_thread, args=(i, fn), daemon=True)
                        for i, fn in enumerate(fns)]
        for t in self.threads:
            t.start()
        first = self.ch.draw(n, 'first_thread') if n > 1 else 0
        self.current = first
        self.go[first].set()
        self.done_evt.wait()
        for t in self.threads:
            t.join(30)
        return self.results, self.errors

    def make_lock(self):
        return SimLock(self)


class SimLock(object):
    """Replacement for threading.Lock under ThreadSim control. Works as a
    plain lock when used from a thread that is not simulated (e.g. set-up)."""

    def __init__(self, sim):
        self.sim = sim
        self.owner = None
        self.acquisitions = 0
        self.contended = 0

    def _me(self):
        sim = self.sim
        cur = sim.current
        if cur is not None and 0 <= cur < len(sim.threads) and \
                threading.current_thread() is sim.threads[cur]:
            return cur
        return 'main'

    def acquire(self, blocking=True, timeout=-1):
        sim = self.sim
        me = self._me()
        self._boundary('acquire')
        while self.owner is not None:
            if me == 'main' or not blocking:
                if not blocking:
                    return False
                raise RuntimeError('SimLock contended outside the simulation')
            self.contended += 1
            sim.state[me] = 'blocked'
            j = sim._pick_next(me)
            if j is None:
                sim.deadlock = True
                sim._abort('deadlock')
                raise SimAbort('deadlock')
            sim.forced_switches += 1
            sim._switch(me, j)
        self.owner = me
        self.acquisitions += 1
        return True

    def _boundary(self, what):
        sim = self.sim
        me = self._me()
        if me != 'main' and not sim.aborting:
            sim.lock_point(what, self)

    def release(self):
        sim = self.sim
        self.owner = None
        for i, s in enumerate(sim.state):
            if s == 'blocked':
                sim.state[i] = 'ready'
        self._boundary('release')

    def locked(self):
        return self.owner is not None

    def __enter__(self):
        self.acquire()
        return self

    def __exit__(self, *a):
        self.release()
        return False
