"""Pure-Python mirror of /repo's working tree (DESIGN 1.1).

/repo/falcon may contain stale, git-ignored cythonized *.so modules which
CPython prefers over the *.py next to them. Every check therefore copies only
the *.py files into a fresh temp dir and imports falcon from there.
"""
import atexit
import hashlib
import os
import shutil
import sys
import tempfile

_state = {'dir': None, 'digest': None, 'src': None}


def build(src_root='/repo'):
    """Copy <src_root>/falcon/**/*.py to a fresh temp dir. Returns (dir, digest)."""
    src_pkg = os.path.join(src_root, 'falcon')
    if not os.path.isdir(src_pkg):
        raise RuntimeError('no falcon package under %s' % src_root)
    _sweep_stale()
    dest = tempfile.mkdtemp(prefix='falcon-mirror-')
    with open(os.path.join(dest, '.owner'), 'w') as f:
        f.write(str(os.getpid()))
    h = hashlib.sha256()
    n = 0
    for dirpath, dirnames, filenames in os.walk(src_pkg):
        dirnames[:] = sorted(d for d in dirnames if d != '__pycache__')
        rel = os.path.relpath(dirpath, src_root)
        os.makedirs(os.path.join(dest, rel), exist_ok=True)
        for fn in sorted(filenames):
            if not fn.endswith('.py'):
                continue
            sp = os.path.join(dirpath, fn)
            with open(sp, 'rb') as f:
                data = f.read()
            h.update(os.path.join(rel, fn).encode() + b'\0' + data + b'\0')
            with open(os.path.join(dest, rel, fn), 'wb') as f:
                f.write(data)
            n += 1
    if n < 50:
        raise RuntimeError('mirror too small: %d files' % n)
    return dest, h.hexdigest()


def _sweep_stale():
    """Remove mirrors left behind by checks that were killed (their owner pid is gone)."""
    base = tempfile.gettempdir()
    try:
        names = os.listdir(base)
    except OSError:
        return
    for n in names:
        if not n.startswith('falcon-mirror-'):
            continue
        d = os.path.join(base, n)
        try:
            with open(os.path.join(d, '.owner')) as f:
                pid = int(f.read().strip() or 0)
        except (OSError, ValueError):
            continue
        if pid <= 0:
            continue
        try:
            os.kill(pid, 0)
        except ProcessLookupError:
            shutil.rmtree(d, ignore_errors=True)
        except OSError:
            pass


def activate(src_root='/repo'):
    """Build the mirror, put it first on sys.path, import falcon from it."""
    if _state['dir']:
        return _state['dir'], _state['digest']
    for name in list(sys.modules):
        if name == 'falcon' or name.startswith('falcon.'):
            raise RuntimeError('falcon imported before the mirror was built')
    dest, digest = build(src_root)
    _state.update(dir=dest, digest=digest, src=src_root)
    owner = os.getpid()

    def _cleanup():
        if os.getpid() == owner:
            shutil.rmtree(dest, ignore_errors=True)

    atexit.register(_cleanup)
    sys.dont_write_bytecode = True
    sys.path.insert(0, dest)
    import logging
    logging.disable(logging.CRITICAL)   # falcon logs handled errors; keep stderr clean
    import falcon
    import falcon.asgi  # noqa: F401
    f = os.path.realpath(falcon.__file__)
    if not f.startswith(os.path.realpath(dest) + os.sep):
        raise RuntimeError('falcon imported from %s, not from the mirror' % f)
    import falcon.util.reader as r
    if not os.path.realpath(r.__file__).startswith(os.path.realpath(dest)):
        raise RuntimeError('falcon.util.reader not from the mirror')
    if type(falcon.App.__call__).__name__ != 'function':
        raise RuntimeError('falcon.App is not pure Python')
    return dest, digest


def directory():
    return _state['dir']


def digest():
    return _state['digest']


def cleanup():
    d = _state['dir']
    if d:
        shutil.rmtree(d, ignore_errors=True)
