"""Virtual-time asyncio event loop whose every step is chosen (DESIGN 3.2).

* ready queue stays FIFO (rule R1): asyncio guarantees call_soon order;
* schedule nondeterminism comes only from *environment actions* (deliver an
  inbound event, acknowledge a send, complete an executor job, ...), each of
  which is an alternative to "run the next ready callback";
* virtual clock: when nothing is runnable the clock jumps to the next timer;
* quiescence (nothing ready, no enabled action, no timer) stops the loop so
  the harness can see who is blocked -- hangs are observed without timeouts.
"""
import asyncio
import heapq
from asyncio import base_events, events


class SimBudgetExceeded(BaseException):
    """Step cap reached. BaseException so application code cannot swallow it."""


class SimAbort(BaseException):
    """Raised by the harness to abort a run from inside (never an oracle)."""


class Env(object):
    """Base class for environments. Subclasses return enabled actions."""

    def actions(self):
        """-> list of (letter, weight, callable)"""
        return []

    def on_quiescent(self):
        """Called when nothing can run. Return True if new work was enabled."""
        return False


class SimLoop(base_events.BaseEventLoop):
    def __init__(self, chooser, env=None, max_steps=20000, app_weight=3):
        super().__init__()
        self._now = 0.0
        self.chooser = chooser
        self.env = env or Env()
        self.max_steps = max_steps
        self.steps = 0
        self.app_steps = 0
        self.env_steps = 0
        self.app_weight = app_weight
        self.trace = []            # compact schedule trace
        self.errors = []           # loop exception-handler reports
        self.quiescent = False
        self.executor_jobs = []    # pending run_in_executor jobs
        self.step_hooks = []       # callables run after every step
        self.set_exception_handler(self._on_exception)
        self._quiescence_rounds = 0
        self._draining = False

    def _jump_clock(self):
        live = [h for h in self._scheduled if not h._cancelled]
        if live:
            self._now = max(self._now, min(h._when for h in live))

    # -- plumbing required by BaseEventLoop ---------------------------------
    def time(self):
        return self._now

    def _write_to_self(self):
        pass

    def _process_events(self, event_list):
        pass

    def call_soon_threadsafe(self, callback, *args, context=None):
        return self.call_soon(callback, *args, context=context)

    def run_in_executor(self, executor, func, *args):
        fut = self.create_future()
        self.executor_jobs.append((fut, func, args))
        return fut

    def _run_executor_job(self):
        # a pool with several workers may finish its pending jobs in any order
        n = len(self.executor_jobs)
        i = self.chooser.draw(n, 'executor_job') if n > 1 else 0
        fut, func, args = self.executor_jobs.pop(i)
        if fut.cancelled():
            return
        try:
            res = func(*args)
        except Exception as ex:   # delivered to the awaiting coroutine
            fut.set_exception(ex)
        else:
            fut.set_result(res)

    def _on_exception(self, loop, context):
        exc = context.get('exception')
        self.errors.append('%s: %r' % (context.get('message'), exc))

    # -- the scheduler --------------------------------------------------------
    def _run_once(self):
        # timers that are due become ready (FIFO by (when, insertion))
        sched = self._scheduled
        while sched and sched[0]._cancelled:
            h = heapq.heappop(sched)
            h._scheduled = False
            self._timer_cancelled_count = max(0, self._timer_cancelled_count - 1)
        while sched and sched[0]._when <= self._now:
            h = heapq.heappop(sched)
            h._scheduled = False
            if not h._cancelled:
                self._ready.append(h)
            else:
                self._timer_cancelled_count = max(0, self._timer_cancelled_count - 1)

        ready = self._ready
        # drop cancelled handles at the head so "ready" means runnable
        while ready and ready[0]._cancelled:
            ready.popleft()

        acts = self.env.actions()
        if self.executor_jobs:
            acts = list(acts)
            acts.append(('x', 2, self._run_executor_job))
        if sched and acts and not self._draining:
            live = [h for h in sched if not h._cancelled]
            if live:
                acts = list(acts)
                acts.append(('t', 1, self._jump_clock))

        if not ready and not acts:
            if self._stopping:
                return
            # nothing runnable: jump the clock, or quiescence
            live = [h for h in sched if not h._cancelled]
            if live:
                self._now = min(h._when for h in live)
                return
            if self.env.on_quiescent():
                self._quiescence_rounds += 1
                if self._quiescence_rounds > 50:
                    raise SimBudgetExceeded('quiescence handler loops')
                return
            self.quiescent = True
            self._stopping = True
            return

        self.steps += 1
        if self.steps > self.max_steps and not self._draining:
            raise SimBudgetExceeded('step cap %d' % self.max_steps)

        if ready and acts:
            weights = [self.app_weight] + [a[1] for a in acts]
            k = self.chooser.weighted(weights, 'sched')
        elif ready:
            k = 0
        else:
            if len(acts) == 1:
                k = 1
            else:
                k = 1 + self.chooser.weighted([a[1] for a in acts], 'sched-env')

        if k == 0:
            handle = ready.popleft()
            self.app_steps += 1
            self.trace.append('a')
            self._current_handle = handle
            try:
                handle._run()
            finally:
                self._current_handle = None
            handle = None
        else:
            letter, _w, fn = acts[k - 1]
            self.env_steps += 1
            self.trace.append(letter)
            fn()

        for hook in self.step_hooks:
            hook()

    def create_task(self, coro, **kw):
        """Tasks remember the root task they descend from, so a harness running several
        top-level activities on one loop can tell whose background tasks are whose."""
        t = super().create_task(coro, **kw)
        try:
            cur = asyncio.current_task(self)
        except RuntimeError:
            cur = None
        t.sim_root = getattr(cur, 'sim_root', None) or cur or t
        return t

    # -- running --------------------------------------------------------------
    def run_main(self, coro, name='main'):
        """Run until the main task finishes or the system is quiescent.

        Returns the main task (possibly still pending => blocked forever).
        """
        task = self.create_task(coro, name=name)
        task.add_done_callback(self._main_done)
        self.quiescent = False
        self.run_forever()
        if task.done() and not task.cancelled():
            ex = task.exception()
            if isinstance(ex, (SimBudgetExceeded, SimAbort)):
                raise ex
        return task

    def _main_done(self, task):
        self.stop()

    def resume(self):
        """Continue after a quiescent stop (e.g. harness enabled new actions)."""
        self.quiescent = False
        self.run_forever()

    def pending_tasks(self):
        return [t for t in asyncio.all_tasks(self) if not t.done()]

    def drain(self):
        """Cancel everything still pending and run the loop dry (cleanup only).

        Draws nothing from the chooser: the environment is replaced by an
        empty one, so every step is "run the next ready callback".
        """
        saved_env = self.env
        self.env = Env()
        self.step_hooks = []
        self._draining = True
        self.executor_jobs = []
        try:
            for _ in range(6):
                pend = self.pending_tasks()
                if not pend and not self._ready and not self._scheduled:
                    break
                for t in pend:
                    t.cancel()
                for h in list(self._scheduled):
                    h.cancel()
                self._stopping = False
                self.run_forever()
        finally:
            self.env = saved_env
            self._draining = False

    def sig(self):
        return ''.join(self.trace)


def new_loop(chooser, env=None, **kw):
    loop = SimLoop(chooser, env, **kw)
    return loop


def run_in_loop(loop, coro):
    """Run `coro` as the main task; returns (task, finished: bool)."""
    events._set_running_loop(None)
    task = loop.run_main(coro)
    return task, task.done()
