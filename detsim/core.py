"""Run context: verdicts are recorded out of band (rule R7), the event log
feeds the determinism digest, nothing here draws or reads a clock."""
import gc
import hashlib
import sys
import traceback

from .chooser import Chooser


class HarnessError(Exception):
    pass


class Verdict(object):
    __slots__ = ('oracle', 'msg', 'sig')

    def __init__(self, oracle, msg, sig):
        self.oracle = oracle
        self.msg = msg
        self.sig = sig

    def as_dict(self):
        return {'oracle': self.oracle, 'msg': self.msg, 'sig': self.sig}


class RunCtx(object):
    def __init__(self, chooser, tier='quick'):
        self.ch = chooser
        self.tier = tier
        self.verdicts = []
        self.log = []            # event log (strings) -> digest
        self.plan = {}           # decoded plan, JSON-able
        self.plan_key = None     # hashable summary of the workload
        self.sched_key = ''      # schedule / fault signature
        self.nontrivial = False
        self.steps = 0
        self.vtime = 0.0
        self.ops_done = 0
        # fault sweep support
        self.sweep_pos = None    # index in choices of the fault-site draw
        self.sweep_sites = 0     # number of fault opportunities seen
        self._fault_at = 0       # 1-based opportunity index that fires; 0 none
        self._opp = 0
        self.fault_fired_at = None
        self.sweep_kinds = []

    # -- verdicts ------------------------------------------------------------
    def violate(self, oracle, msg, **sig):
        # keep the first verdict per oracle id in a run
        for v in self.verdicts:
            if v.oracle == oracle:
                return
        self.verdicts.append(Verdict(oracle, str(msg)[:600], sig))

    def event(self, *items):
        self.log.append(' '.join(str(i) for i in items))

    def probe(self, name, n=1):
        self.ch.probe(name, n)

    note = probe

    # -- single-fault sweep ------------------------------------------------
    def draw_fault_site(self, limit=48):
        """Draw which fault opportunity (1-based) fires in this run; 0 = none.
        The runner sweeps this position explicitly."""
        self.sweep_pos = len(self.ch.choices)
        self._fault_at = self.ch.draw(limit + 1, 'fault_site')
        return self._fault_at

    def opportunity(self, kind):
        """Count a fault opportunity; True iff this is the one that fires."""
        self._opp += 1
        self.sweep_sites = self._opp
        self.ch.offered[kind] = self.ch.offered.get(kind, 0) + 1
        if self._opp == self._fault_at:
            self.ch.note_fired(kind)
            self.fault_fired_at = (kind, self._opp)
            return True
        return False

    def digest(self):
        h = hashlib.sha256()
        for line in self.log:
            h.update(line.encode('utf-8', 'backslashreplace'))
            h.update(b'\n')
        for v in self.verdicts:
            h.update(('V ' + v.oracle).encode())
        return h.hexdigest()[:16]


_CLEARERS = None


def _find_clearers():
    mods = sys.modules
    out = []
    for name in ('falcon.util.misc', 'falcon.util.mediatypes', 'falcon.media.handlers',
                 'falcon.asgi.ws', 'falcon.util.uri', 'falcon.routing.converters',
                 'falcon.request_helpers', 'falcon.util.structures', 'falcon.response',
                 'falcon.request', 'falcon.asgi.request', 'falcon.app_helpers',
                 'falcon.asgi._asgi_helpers'):
        m = mods.get(name)
        if m is None:
            continue
        for key in sorted(vars(m)):
            v = vars(m)[key]
            cc = getattr(v, 'cache_clear', None)
            if cc is not None and callable(cc):
                out.append(cc)
    m = mods.get('falcon.asgi.request')
    if m is not None:
        try:
            for d in m.Request.get_header.__defaults__ or ():
                if isinstance(d, dict):
                    out.append(d.clear)
        except Exception:
            pass
    return out


_CONTAINERS = None


def _find_containers():
    """Every module-level dict/list/set of the falcon package with a shallow
    snapshot of its post-import content."""
    out = []
    seen = set()
    for name in sorted(sys.modules):
        if name != 'falcon' and not name.startswith('falcon.'):
            continue
        m = sys.modules[name]
        d = getattr(m, '__dict__', None)
        if not d:
            continue
        for key in sorted(d):
            if key.startswith('__'):
                continue
            v = d[key]
            t = type(v)
            if t not in (dict, list, set) or id(v) in seen:
                continue
            seen.add(id(v))
            out.append((v, t(v)))
    return out


def reset_falcon_caches():
    """Canonical start state (DESIGN 3.9): clear every process-wide cache and put
    every module-level container of the falcon package back to its post-import
    content, so that no run can see state left behind by an earlier run in the
    same worker (a verdict must be a function of the run's own choice list)."""
    global _CLEARERS, _CONTAINERS
    if _CLEARERS is None:
        _CLEARERS = _find_clearers()
        _CONTAINERS = _find_containers()
    for cc in _CLEARERS:
        try:
            cc()
        except Exception:
            pass
    for obj, snap in _CONTAINERS:
        if obj != snap:
            obj.clear()
            if type(obj) is list:
                obj.extend(snap)
            else:
                obj.update(snap)


def run_case(mod, seed=None, replay=None, prefix=None, tier='quick', keep_labels=False):
    """Execute one simulated run of property module `mod`.

    seed: PRNG seed (generate mode); replay: full recorded choice list;
    prefix: recorded prefix followed by PRNG continuation (fault sweeps).
    Returns a result dict (JSON-able).
    """
    if replay is not None:
        ch = Chooser(replay=replay, keep_labels=keep_labels)
    else:
        ch = Chooser(seed=seed, keep_labels=keep_labels)
        if prefix is not None:
            ch._replay = list(prefix)
            ch._hybrid = True
    ctx = RunCtx(ch, tier)
    reset_falcon_caches()
    gc_was = gc.isenabled()
    gc.disable()
    harness_error = None
    try:
        mod.run(ctx)
    except HarnessError as ex:
        harness_error = 'HarnessError: %s' % ex
    except Exception:
        harness_error = traceback.format_exc(limit=12)
    except BaseException as ex:   # SimBudgetExceeded etc. escaping a harness
        if isinstance(ex, (KeyboardInterrupt, SystemExit)):
            raise
        harness_error = 'BaseException escaped: %r\n%s' % (ex, traceback.format_exc(limit=12))
    finally:
        if gc_was:
            gc.enable()
    return {
        'seed': seed,
        'choices': ch.choices,
        'labels': ch.labels,
        'verdicts': [v.as_dict() for v in ctx.verdicts],
        'fired': dict(ch.fired),
        'offered': dict(ch.offered),
        'probes': dict(ch.probes),
        'steps': ctx.steps,
        'vtime': ctx.vtime,
        'plan': ctx.plan,
        'plan_key': ctx.plan_key,
        'sched_key': ctx.sched_key,
        'nontrivial': bool(ctx.nontrivial),
        'digest': ctx.digest(),
        'harness_error': harness_error,
        'sweep_pos': ctx.sweep_pos,
        'sweep_sites': ctx.sweep_sites,
        'overrun': ch.overrun,
        'ops_done': ctx.ops_done,
    }


def run_case_isolated(mod, **kw):
    """run_case in a forked child: every run starts from the pristine
    post-import process image, so hidden module-level state left behind by an
    earlier run (e.g. a mutated module global in the code under test) can
    neither cause nor mask a verdict -- a verdict is a function of the run's
    choice list alone, which is what makes its replay file reproduce."""
    import os
    import pickle
    r, w = os.pipe()
    pid = os.fork()
    if pid == 0:
        code = 0
        try:
            os.close(r)
            res = run_case(mod, **kw)
            data = pickle.dumps(res, protocol=pickle.HIGHEST_PROTOCOL)
            with os.fdopen(w, 'wb') as f:
                f.write(data)
        except BaseException:
            code = 3
        finally:
            os._exit(code)
    os.close(w)
    chunks = []
    with os.fdopen(r, 'rb') as f:
        while True:
            b = f.read(1 << 16)
            if not b:
                break
            chunks.append(b)
    _pid, status = os.waitpid(pid, 0)
    if status != 0 or not chunks:
        res = run_case.__globals__['_dead_result'](kw, status)
        return res
    return pickle.loads(b''.join(chunks))


def _dead_result(kw, status):
    return {'seed': kw.get('seed'), 'choices': list(kw.get('replay') or kw.get('prefix') or []), 'labels': None,
            'verdicts': [], 'fired': {}, 'offered': {}, 'probes': {}, 'steps': 0, 'vtime': 0.0, 'plan': {},
            'plan_key': None, 'sched_key': '', 'nontrivial': False, 'digest': 'dead',
            'harness_error': 'isolated run died with wait status %r' % (status,), 'sweep_pos': None,
            'sweep_sites': 0, 'overrun': 0, 'ops_done': 0}
