"""Fake WSGI server (DESIGN 3.4), written from PEP 3333.

* builds `environ` itself;
* `SimInput` is wsgi.input: read sizes actually returned are chosen by the
  Chooser within what the io API allows (exact, short reads, early EOF), it
  counts what was *requested* and carries an over-read probe (pipelined bytes
  after the declared body that must never be returned);
* `StartResponseMonitor` validates the start_response call and the iterable;
* `consume()` iterates the response like a server would: chunk by chunk, may
  abandon early, and always calls close() if present.
Monitors only record; they never raise into the application (R7).
"""
import io
import sys


class SimInput(object):
    """wsgi.input: the request body followed by `extra` pipelined bytes."""

    def __init__(self, ctx, data, extra=b'', short_reads=False, limit=None, max_calls=20000):
        self.ctx = ctx
        self.ch = ctx.ch
        self.data = data                      # bytes the server will make available
        self.extra = extra                    # bytes of the *next* request
        self.buf = data + extra
        self.pos = 0
        self.short_reads = short_reads
        self.requested = 0                    # total bytes requested via sized calls
        self.unbounded_calls = 0              # read()/readline()/iteration without a size
        self.calls = []
        self.max_calls = max_calls
        self.returned = 0
        self.limit = limit                    # declared Content-Length (None: not checked)
        self.overasked = None                 # first sized call asking beyond the limit
        self.raise_at_call = None             # index of the read call that fails with an I/O error

    # -- helpers ---------------------------------------------------------------
    def _note(self, what, size):
        if self.raise_at_call is not None and len(self.calls) == self.raise_at_call:
            self.calls.append((what + '!', size))
            raise TimeoutError('timed out reading the request body')
        self.calls.append((what, size))
        if len(self.calls) > self.max_calls:
            from .simloop import SimBudgetExceeded
            raise SimBudgetExceeded('wsgi.input call budget')

    def _take(self, n):
        out = self.buf[self.pos:self.pos + n]
        self.pos += len(out)
        self.returned += len(out)
        return out

    def _check_limit(self, what, size):
        if self.limit is not None and self.overasked is None and size > self.limit - self.pos:
            self.overasked = (what, size, self.pos)

    @property
    def overread(self):
        """bytes handed out beyond the declared body"""
        return max(0, self.pos - len(self.data))

    # -- file API --------------------------------------------------------------
    def read(self, size=-1):
        self._note('read', size)
        if size is None or size < 0:
            self.unbounded_calls += 1
            return self._take(len(self.buf) - self.pos)
        self.requested += size
        self._check_limit('read', size)
        n = size
        avail = len(self.buf) - self.pos
        if self.short_reads and n > 1 and avail > 1:
            if self.ch.fault('wsgi_short_read'):
                n = 1 + self.ch.draw(min(n, avail) - 1, 'short')
        return self._take(n)

    def readline(self, size=-1):
        self._note('readline', size)
        if size is None or size < 0:
            self.unbounded_calls += 1
            limit = len(self.buf) - self.pos
        else:
            self.requested += size
            self._check_limit('readline', size)
            limit = size
        chunk = self.buf[self.pos:self.pos + limit]
        i = chunk.find(b'\n')
        if i >= 0:
            chunk = chunk[:i + 1]
        return self._take(len(chunk))

    def readlines(self, hint=-1):
        self._note('readlines', hint)
        self.unbounded_calls += 1
        lines = []
        total = 0
        while True:
            line = self.readline()
            if not line:
                break
            lines.append(line)
            total += len(line)
            if hint is not None and 0 < hint <= total:
                break
        return lines

    def __iter__(self):
        return self

    def __next__(self):
        self._note('next', None)
        self.unbounded_calls += 1
        line = self.readline()
        if not line:
            raise StopIteration
        return line


class FileWrapper(object):
    """wsgi.file_wrapper as servers provide it (PEP 3333 'Optional
    Platform-Specific File Handling')."""

    def __init__(self, filelike, blksize=8192):
        self.filelike = filelike
        self.blksize = blksize
        self.closed_calls = 0
        if hasattr(filelike, 'close'):
            self.close = self._close
        self._fd_bytes = None
        if self.USE_FILENO and hasattr(filelike, 'fileno'):
            # sendfile-style servers (gunicorn, uWSGI): when the object exposes a file
            # descriptor they transmit from its current offset to the end of the file
            try:
                import os
                fd = filelike.fileno()
                pos = os.lseek(fd, 0, os.SEEK_CUR)
                size = os.fstat(fd).st_size
                self._fd_bytes = os.pread(fd, max(0, size - pos), pos)
            except Exception:
                self._fd_bytes = None

    USE_FILENO = False

    def _close(self):
        self.closed_calls += 1
        self.filelike.close()

    def __iter__(self):
        return self

    def __next__(self):
        if self._fd_bytes is not None:
            data, self._fd_bytes = self._fd_bytes[:self.blksize], self._fd_bytes[self.blksize:]
            if data:
                return data
            raise StopIteration
        data = self.filelike.read(self.blksize)
        if data:
            return data
        raise StopIteration


class SendfileWrapper(FileWrapper):
    """wsgi.file_wrapper of a server that uses the descriptor when there is one."""
    USE_FILENO = True


_HOP = frozenset(['connection', 'keep-alive', 'proxy-authenticate', 'proxy-authorization',
                  'te', 'trailers', 'transfer-encoding', 'upgrade'])


class WsgiExchange(object):
    """One request/response exchange with monitoring."""

    def __init__(self, ctx, prefix='wsgi.monitor'):
        self.ctx = ctx
        self.prefix = prefix
        self.violations = []
        self.start_calls = 0
        self.status = None
        self.status_code = None
        self.headers = None
        self.chunks = []
        self.iterable = None
        self.closed = 0
        self.app_exc = None
        self.abandoned = False
        self.iter_error = None
        self.wrapper = None

    def flag(self, what, msg):
        self.violations.append((self.prefix + '.' + what, msg))

    def start_response(self, status, headers, exc_info=None):
        self.start_calls += 1
        if self.start_calls > 1 and exc_info is None:
            self.flag('start_once', 'start_response called %d times' % self.start_calls)
        if type(status) is not str:
            self.flag('status_type', 'status is %s' % type(status).__name__)
        else:
            if len(status) < 4 or not status[:3].isdigit() or status[3] != ' ':
                self.flag('status_line', 'status %r is not "DDD reason"' % (status,))
            else:
                self.status_code = int(status[:3])
            if any(ord(c) < 32 or ord(c) > 255 for c in status) or status != status.rstrip():
                self.flag('status_line', 'status %r has control chars / trailing space' % (status,))
        self.status = status
        if type(headers) is not list:
            self.flag('headers_type', 'headers is %s, not list' % type(headers).__name__)
        out = []
        try:
            for item in headers:
                if type(item) is not tuple or len(item) != 2:
                    self.flag('header_item', 'header item %r' % (item,))
                    continue
                n, v = item
                if type(n) is not str or type(v) is not str:
                    self.flag('header_str', 'header %r not native strings' % (item,))
                    continue
                try:
                    n.encode('latin-1')
                    v.encode('latin-1')
                except UnicodeEncodeError:
                    self.flag('header_latin1', 'header %r not latin-1' % (item,))
                if not n or any(c in n for c in ' :\r\n\t') or '\r' in v or '\n' in v:
                    self.flag('header_chars', 'illegal header %r' % (item,))
                if n.lower() in _HOP:
                    self.flag('hop_by_hop', 'hop-by-hop header %r' % (n,))
                if n.lower() == 'status':
                    self.flag('header_status', 'header named Status')
                out.append((n, v))
        except TypeError:
            self.flag('headers_type', 'headers not iterable')
        self.headers = out
        return lambda data: self.flag('write_callable', 'legacy write() used')

    def header_values(self, name):
        name = name.lower()
        return [v for (n, v) in (self.headers or []) if n.lower() == name]

    def call(self, app, environ):
        fw = environ.get('wsgi.file_wrapper')
        if isinstance(fw, type) and issubclass(fw, FileWrapper):
            # servers like mod_wsgi bind the wrapper to the request (its connection): hand out a
            # per-request factory and check below that the response uses this request's own
            exchange = self

            def bound_file_wrapper(filelike, blksize=8192):
                w = fw(filelike, blksize)
                w.owner = exchange
                return w
            environ['wsgi.file_wrapper'] = bound_file_wrapper
        try:
            self.iterable = app(environ, self.start_response)
        except Exception as ex:
            self.app_exc = ex
            return False
        if isinstance(self.iterable, FileWrapper) and getattr(self.iterable, 'owner', self) is not self:
            self.flag('foreign_file_wrapper', 'the response was built with the wsgi.file_wrapper of '
                      'another request')
        if self.start_calls == 0:
            # PEP 3333 allows deferring start_response until the first
            # iteration step; Falcon documents calling it before returning.
            pass
        return True

    def consume(self, abandon_after=None):
        """Iterate like a server; abandon after `abandon_after` chunks if set.
        Always calls close() on the iterable if it has one."""
        it = self.iterable
        if it is None:
            return
        try:
            try:
                iterator = iter(it)
            except TypeError:
                self.flag('iterable', 'app returned a non-iterable %s' % type(it).__name__)
                return
            n = 0
            while True:
                if abandon_after is not None and n >= abandon_after:
                    self.abandoned = True
                    break
                try:
                    chunk = next(iterator)
                except StopIteration:
                    break
                except Exception as ex:
                    self.iter_error = ex
                    break
                if self.start_calls == 0:
                    self.flag('start_before_body', 'first chunk before start_response')
                if type(chunk) is not bytes:
                    self.flag('chunk_type', 'chunk is %s' % type(chunk).__name__)
                    try:
                        chunk = bytes(chunk)
                    except Exception:
                        chunk = b''
                self.chunks.append(chunk)
                n += 1
        finally:
            close = getattr(it, 'close', None)
            if close is not None:
                try:
                    close()
                    self.closed += 1
                except Exception as ex:
                    self.iter_error = self.iter_error or ex

    @property
    def body(self):
        return b''.join(self.chunks)


def make_environ(method='GET', path='/', query='', headers=(), body_input=None,
                 content_length=None, content_type=None, scheme='http', host='sim',
                 port=80, file_wrapper=None, script_name='', remote_addr='10.0.0.1',
                 http_version='1.1'):
    """CGI-style environ per PEP 3333 (PATH_INFO: UTF-8 bytes tunnelled as latin-1)."""
    if isinstance(path, str):
        path_info = path.encode('utf-8').decode('latin-1')
    else:
        path_info = path.decode('latin-1')
    env = {
        'REQUEST_METHOD': method,
        'SCRIPT_NAME': script_name,
        'PATH_INFO': path_info,
        'QUERY_STRING': query,
        'SERVER_NAME': host,
        'SERVER_PORT': str(port),
        'SERVER_PROTOCOL': 'HTTP/' + http_version,
        'REMOTE_ADDR': remote_addr,
        'wsgi.version': (1, 0),
        'wsgi.url_scheme': scheme,
        'wsgi.input': body_input if body_input is not None else io.BytesIO(b''),
        'wsgi.errors': io.StringIO(),
        'wsgi.multithread': True,
        'wsgi.multiprocess': False,
        'wsgi.run_once': False,
    }
    if content_length is not None:
        env['CONTENT_LENGTH'] = str(content_length)
    if content_type is not None:
        env['CONTENT_TYPE'] = content_type
    seen = {}
    for k, v in headers:
        key = 'HTTP_' + k.upper().replace('-', '_')
        if key in ('HTTP_CONTENT_LENGTH', 'HTTP_CONTENT_TYPE'):
            env[key[5:]] = v
            continue
        if key in seen:
            env[key] = env[key] + ',' + v
        else:
            env[key] = v
            seen[key] = 1
    if 'HTTP_HOST' not in env:
        env['HTTP_HOST'] = host if port in (80, 443) else '%s:%d' % (host, port)
    if file_wrapper is not None:
        env['wsgi.file_wrapper'] = file_wrapper
    return env
