"""known_findings.json: committed, never written at run time (Interface)."""
import json
import os

PATH = os.path.join(os.path.dirname(os.path.dirname(os.path.abspath(__file__))),
                    'known_findings.json')


def load():
    if not os.path.exists(PATH):
        return []
    with open(PATH) as f:
        data = json.load(f)
    return data.get('findings', [])


def match(entries, prop, verdict):
    """Return the 'known' entry matching this verdict, or None.
    'fixed' entries suppress nothing."""
    for e in entries:
        if e.get('status') != 'known':
            continue
        if e.get('property') != prop:
            continue
        if e.get('oracle_id') != verdict['oracle']:
            continue
        sig = verdict.get('sig') or {}
        want = e.get('signature') or {}
        if all(sig.get(k) == v for k, v in want.items()):
            return e
    return None
