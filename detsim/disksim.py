"""Disk wrapper (DESIGN 3.6): a real, small, immutable directory tree, an
open-audit (sys.addaudithook) and fault-injecting proxies for the `io` / `os`
module globals of falcon.routing.static.

* The tree is built ONCE per check process, before the worker pool is forked,
  below `<mirror>/_disksim` (detsim.mirror.cleanup() removes the mirror
  directory when ./check exits, workers leave through os._exit and would never
  run an atexit handler). It is never written again, so sharing it between
  forked workers and between runs is safe. Without a mirror (ad-hoc use) the
  tree goes to a mkdtemp directory removed by a pid-guarded atexit handler.
* Observation: a process-wide audit hook records every `open` event while a
  per-run flag is set (hooks cannot be removed, so it is installed once).
  Import artefacts (paths below sys.prefix / sys.base_prefix / the stdlib /
  `<mirror>/falcon/` / the harness' own source tree) do not count; everything else counts, in particular
  everything below the DiskSim root.
* Faults: `IoProxy` / `OsProxy` delegate everything to the real modules, but
  `open` / `fstat` may raise OSError and the file objects returned by `open`
  are `FileProxy` objects that may short-read, fail in `seek` / `read`, and
  count `close`. The real file system stays underneath, so code that bypasses
  the proxies (builtin open(), os.open) is still seen by the audit hook.

Nothing here draws from a PRNG or reads a clock: all decisions are delegated to
a controller object supplied by the property harness.
"""
import atexit
import errno
import io as _io
import os as _os
import shutil
import sys
import tempfile

from . import mirror

# ---------------------------------------------------------------------------
# the tree
# ---------------------------------------------------------------------------
MTIME = 1736617934.5          # fractional on purpose (HTTP dates have 1 s resolution)

#   (path relative to the root, size | bytes, mtime, plain)
# `plain`: the name consists of characters the route documents as acceptable
# (no '..' inside, no surrounding blanks, no trailing period, no reserved or
# control characters), so a request spelling exactly this path must be served.
_SPEC = [
    ('www/e0.txt', 0, MTIME, True),
    ('www/f1.txt', 1, MTIME, True),
    ('www/f2.css', 2, MTIME, True),
    ('www/f3.js', 3, MTIME, True),
    ('www/f4.html', 4, MTIME, True),
    ('www/f5.json', 5, MTIME, True),
    ('www/f6.txt', 6, 1736617934.0, True),
    ('www/f7.bin', 7, MTIME, True),
    ('www/f8.png', 8, MTIME, True),
    ('www/f9.txt', 9, MTIME, True),
    ('www/f10.txt', 10, MTIME, True),
    ('www/f11.svg', 11, MTIME, True),
    ('www/f12.txt', 12, MTIME, True),
    ('www/big.html', 40, MTIME + 90061.0, True),
    ('www/index.html', 7, MTIME, True),
    ('www/shared.txt', 6, MTIME, True),
    ('www/.hidden', 3, MTIME, True),
    ('www/a b.txt', 4, MTIME, True),
    ('www/é.txt', 5, MTIME, True),
    ('www/x..y', 2, MTIME, False),
    ('www/sub/inner.txt', 5, MTIME, True),
    ('www/sub/index.html', 8, MTIME, True),
    ('www/sub/deep/leaf.js', 9, MTIME, True),
    ('www/sub/deep/e0.bin', 0, MTIME, True),
    ('www/dir.d/n3.txt', 3, MTIME, True),
    # outside the served directory: must never be opened / disclosed
    ('outside/secret.txt', b'SECRET:outside/secret.txt', MTIME, False),
    ('outside/shared.txt', b'SECRET:outside/shared.txt', MTIME, False),
    ('outside/passwd', b'SECRET:root:x:0:0', MTIME, False),
    ('outside/sub/inner.txt', b'SECRET:outside/sub/inner.txt', MTIME, False),
    # sibling whose path has the served directory's path as a string prefix
    ('www2/secret.txt', b'SECRET:www2/secret.txt', MTIME, False),
    ('www2/f1.txt', b'SECRET:www2/f1.txt', MTIME, False),
    # a fallback file that lives outside the served directory (allowed by the
    # API: "any valid absolute path"); a secret when not configured
    ('fb/fallback.html', b'FALLBACK-PAGE', MTIME - 86400.25, False),
]
_EMPTY_DIRS = ['www/empty']


def content(fid, n):
    """Position-dependent bytes: inside one file every slice identifies its
    offset, and files of equal size differ."""
    return bytes(33 + (fid * 17 + i) % 90 for i in range(n))


class FileInfo(object):
    __slots__ = ('rel', 'abs', 'data', 'size', 'mtime', 'mtime_sec', 'plain')

    def __init__(self, rel, abs_, data, mtime, plain):
        self.rel = rel
        self.abs = abs_
        self.data = data
        self.size = len(data)
        self.mtime = mtime
        self.mtime_sec = int(mtime // 1)
        self.plain = plain


class Tree(object):
    """Immutable description of the on-disk tree (contents are kept in memory
    so that oracles never open a file while the audit is active)."""

    def __init__(self, root):
        self.root = root
        self.files = {}        # absolute path -> FileInfo
        self.by_rel = {}       # path relative to root -> FileInfo
        self.dirs = []         # absolute paths of all directories, sorted

    def path(self, rel):
        return _os.path.join(self.root, rel)

    def under(self, directory):
        """FileInfo of every regular file below `directory`, keyed by the
        '/'-joined path relative to it; sorted order."""
        pre = directory.rstrip('/') + '/'
        out = {}
        for p in sorted(self.files):
            if p.startswith(pre):
                out[p[len(pre):]] = self.files[p]
        return out

    def dirs_under(self, directory):
        pre = directory.rstrip('/') + '/'
        return [d[len(pre):] for d in self.dirs if d.startswith(pre)]

    def outside(self, directory):
        pre = directory.rstrip('/') + '/'
        return [self.files[p] for p in sorted(self.files) if not p.startswith(pre)]

    def show(self, s):
        """Replace the (process-specific) root by a placeholder for logs."""
        if isinstance(s, bytes):
            return s.replace(self.root.encode(), b'<ROOT>')
        return s.replace(self.root, '<ROOT>')


_TREE = {'tree': None}


def _describe(root):
    """In-memory description of the tree at `root` (no file system access)."""
    tree = Tree(root)
    dirs = set()
    for fid, (rel, spec, mtime, plain) in enumerate(_SPEC):
        data = spec if isinstance(spec, bytes) else content(fid, spec)
        p = _os.path.join(root, rel)
        d = _os.path.dirname(p)
        while d != root:
            dirs.add(d)
            d = _os.path.dirname(d)
        info = FileInfo(rel, p, data, mtime, plain)
        tree.files[p] = info
        tree.by_rel[rel] = info
    for rel in _EMPTY_DIRS:
        dirs.add(_os.path.join(root, rel))
    tree.dirs = sorted(dirs)
    return tree


def _write(root):
    """Materialise the tree below the (new) directory `root`."""
    tree = _describe(root)
    for d in tree.dirs:
        _os.makedirs(d, exist_ok=True)
    for p in sorted(tree.files):
        info = tree.files[p]
        with open(p, 'wb') as f:
            f.write(info.data)
        ns = int(round(info.mtime * 1000)) * 1000000
        _os.utime(p, ns=(ns, ns))


def get_tree():
    """Build (once per check: before the worker pool is forked) and return
    the tree."""
    if _TREE['tree'] is not None:
        return _TREE['tree']
    base = mirror.directory()
    if base:
        root = _os.path.join(_os.path.realpath(base), '_disksim')
        if not _os.path.isdir(root):
            # written next to its final place, then renamed: a process that
            # finds `root` finds it complete
            tmp = '%s.%d' % (root, _os.getpid())
            _os.makedirs(tmp)
            _write(tmp)
            try:
                _os.rename(tmp, root)
            except OSError:
                shutil.rmtree(tmp, ignore_errors=True)
    else:
        root = _os.path.realpath(tempfile.mkdtemp(prefix='falcon-disksim-'))
        owner = _os.getpid()

        def _cleanup():
            if _os.getpid() == owner:
                shutil.rmtree(root, ignore_errors=True)

        atexit.register(_cleanup)
        _write(root)
    _TREE['tree'] = _describe(root)
    return _TREE['tree']


# ---------------------------------------------------------------------------
# open audit
# ---------------------------------------------------------------------------
_AUDIT = {'installed': False, 'active': False, 'log': []}


def _hook(event, args):
    if event == 'open' and _AUDIT['active']:
        try:
            _AUDIT['log'].append(args[0])
        except Exception:       # never let observation perturb the run
            pass


def install_audit():
    if not _AUDIT['installed']:
        sys.addaudithook(_hook)
        _AUDIT['installed'] = True


def audit_start():
    _AUDIT['log'] = []
    _AUDIT['active'] = True


def audit_stop():
    """-> list of raw audited `open` arguments (str / bytes / int / PathLike)."""
    _AUDIT['active'] = False
    log, _AUDIT['log'] = _AUDIT['log'], []
    return log


def _artefact_roots():
    roots = set()
    for p in (sys.prefix, sys.base_prefix, sys.exec_prefix, sys.base_exec_prefix,
              _os.path.dirname(_os.__file__)):
        if p:
            roots.add(_os.path.realpath(p).rstrip('/') + '/')
    m = mirror.directory()
    if m:
        roots.add(_os.path.join(_os.path.realpath(m), 'falcon') + '/')
    # the harness' own sources: linecache reads them when Falcon's default
    # error handler formats a traceback that has simulator frames in it
    roots.add(_os.path.dirname(_os.path.dirname(_os.path.realpath(__file__))).rstrip('/') + '/')
    return tuple(sorted(roots))


_ROOTS = {'v': None}


def counted_opens(raw):
    """Real paths of the audited opens that count (not import artefacts).
    Descriptors (open(fd)) are not path based and are skipped."""
    if _ROOTS['v'] is None:
        _ROOTS['v'] = _artefact_roots()
    out = []
    for a in raw:
        if isinstance(a, int):
            continue
        try:
            p = _os.fsdecode(_os.fspath(a))
        except Exception:
            continue
        if '\0' in p:
            out.append(p)       # cannot exist; reported as is
            continue
        rp = _os.path.realpath(p)
        if rp.startswith(_ROOTS['v']):
            continue
        out.append(rp)
    return out


# ---------------------------------------------------------------------------
# fault proxies
# ---------------------------------------------------------------------------
class DiskCtl(object):
    """Per-run controller. `fault(kind)` -> bool decides the error faults
    ('open_error', 'fstat_error', 'seek_error', 'read_error'); `short(n)` ->
    number of bytes (1..n) a read that obtained n > 1 bytes hands out."""

    def __init__(self, fault=None, short=None):
        self._fault = fault
        self._short = short
        self.files = []          # every FileProxy handed out, in order
        self.open_calls = []     # paths passed to io.open (as given)
        self.fstat_calls = 0
        self.short_reads = 0
        self.trace = []          # compact I/O trace: o f s r<n> c

    def fault(self, kind):
        return bool(self._fault and self._fault(kind))

    def short(self, n):
        if self._short is None:
            return n
        k = self._short(n)
        if k < n:
            self.short_reads += 1
        return k

    def left_open(self):
        return [f for f in self.files if not f._real.closed]

    def close_all(self):
        """End of run: release descriptors (gc is disabled inside a run)."""
        for f in self.files:
            try:
                f._real.close()
            except Exception:
                pass


class FileProxy(object):
    """A real binary file with injected POSIX behaviours."""

    def __init__(self, real, ctl, path):
        self._real = real
        self._ctl = ctl
        self.path = path
        self.reads = 0
        self.close_calls = 0
        self.seeks = 0
        self.returned = 0

    def fileno(self):
        return self._real.fileno()

    def seek(self, offset, whence=0):
        self.seeks += 1
        self._ctl.trace.append('s')
        if self._ctl.fault('seek_error'):
            raise OSError(errno.EIO, 'injected seek error')
        return self._real.seek(offset, whence)

    def read(self, size=-1):
        self.reads += 1
        if self._ctl.fault('read_error'):
            self._ctl.trace.append('r!')
            raise OSError(errno.EIO, 'injected read error')
        data = self._real.read(size)
        n = len(data)
        if n > 1:
            k = self._ctl.short(n)
            if 1 <= k < n:
                self._real.seek(k - n, 1)
                data = data[:k]
        self.returned += len(data)
        self._ctl.trace.append('r%d' % len(data))
        return data

    def close(self):
        self.close_calls += 1
        self._ctl.trace.append('c')
        return self._real.close()

    @property
    def closed(self):
        return self._real.closed

    def __enter__(self):
        return self

    def __exit__(self, *a):
        self.close()

    def __getattr__(self, name):
        return getattr(self._real, name)


class IoProxy(object):
    def __init__(self, ctl):
        self._ctl = ctl

    def open(self, file, mode='r', *args, **kw):
        self._ctl.open_calls.append(file)
        self._ctl.trace.append('o')
        if self._ctl.fault('open_error'):
            # EACCES: an OSError that is not FileNotFoundError
            raise OSError(errno.EACCES, 'injected open error')
        real = _io.open(file, mode, *args, **kw)
        fp = FileProxy(real, self._ctl, file)
        self._ctl.files.append(fp)
        return fp

    def __getattr__(self, name):
        return getattr(_io, name)


class OsProxy(object):
    def __init__(self, ctl):
        self._ctl = ctl

    def fstat(self, fd):
        self._ctl.fstat_calls += 1
        self._ctl.trace.append('f')
        if self._ctl.fault('fstat_error'):
            raise OSError(errno.EIO, 'injected fstat error')
        return _os.fstat(fd)

    def __getattr__(self, name):
        return getattr(_os, name)


class patched(object):
    """with patched(module, ctl): module.io / module.os are proxies."""

    def __init__(self, module, ctl):
        self.module = module
        self.ctl = ctl
        self.saved = None

    def __enter__(self):
        m = self.module
        self.saved = (m.io, m.os)
        m.io = IoProxy(self.ctl)
        m.os = OsProxy(self.ctl)
        return self.ctl

    def __exit__(self, *exc):
        self.module.io, self.module.os = self.saved
        return False
