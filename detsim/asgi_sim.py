"""Fake ASGI server (DESIGN 3.3), written from the ASGI HTTP/WebSocket spec
(2.0-2.4) and the lifespan spec -- not from falcon.testing.

A `Conn` is one connection (scope + receive + send). The inbound *script* is
what the client will do; the simulator decides *when* each scripted event
arrives at the server (`deliver`), when a suspended receive() is resolved and
when a suspended send() is acknowledged.  Monitors are independent protocol
state machines that only *record* (rule R7: never raise into the application).
"""
import collections
import copy


class ServerRefused(Exception):
    """The server rejects one event (an internal error of its own); the connection is unaffected."""


class LostConnection(OSError):
    """What a spec-2.4 server raises when send() is called on a lost connection."""


def _ver_tuple(v):
    try:
        return tuple(int(x) for x in v.split('.'))
    except Exception:
        return (2, 0)


# ---------------------------------------------------------------------------
# monitors
# ---------------------------------------------------------------------------
class Monitor(object):
    def __init__(self, prefix):
        self.prefix = prefix
        self._violations = []    # (oracle_id, message)
        self.events = []         # accepted (connection still up) events
        self.attempted_after_lost = 0
        self._snapshots = []     # deep copies taken when the event was sent
        self._finalized = False

    def remember(self, ev):
        """A server may keep the event object after send() returns (buffering
        middleware does); the application must not change it afterwards."""
        self.events.append(ev)
        try:
            self._snapshots.append(copy.deepcopy(ev))
        except Exception:
            self._snapshots.append(None)

    def finalize(self):
        if self._finalized:
            return
        self._finalized = True
        for ev, snap in zip(self.events, self._snapshots):
            if snap is not None and ev != snap:
                self.flag('event_mutated', 'event object changed after it was sent: sent %r, now %r' % (
                    snap, ev))
                break

    def flag(self, what, msg):
        self._violations.append((self.prefix + '.' + what, msg))

    @property
    def violations(self):
        """Read after the run: also checks that no sent event was mutated."""
        self.finalize()
        return self._violations


class HttpMonitor(Monitor):
    """ASGI HTTP response side: exactly one response.start, then body events
    of which only the last has more_body false, nothing afterwards."""

    def __init__(self):
        Monitor.__init__(self, 'asgi.monitor')
        self.state = 'init'          # init -> started -> done
        self.status = None
        self.headers = None
        self.body_chunks = []
        self.starts = 0

    def on_send(self, ev):
        self.remember(ev)
        if not isinstance(ev, dict) or not isinstance(ev.get('type'), str):
            self.flag('event_shape', 'not an event dict: %r' % (ev,))
            return
        t = ev['type']
        if t == 'http.response.start':
            self.starts += 1
            if self.state != 'init':
                self.flag('start_once', 'second http.response.start (state %s)' % self.state)
                return
            self.state = 'started'
            st = ev.get('status')
            if type(st) is not int or not (100 <= st <= 999):
                self.flag('status', 'illegal status %r' % (st,))
            self.status = st
            hdrs = ev.get('headers', [])
            out = []
            try:
                for item in hdrs:
                    name, value = item
                    if not isinstance(name, bytes) or not isinstance(value, bytes):
                        self.flag('header_type', 'header not bytes: %r' % (item,))
                        continue
                    if name != name.lower():
                        self.flag('header_case', 'header name not lower-case: %r' % (name,))
                    if not name or any(c in name for c in b' \r\n:') or b'\r' in value or b'\n' in value:
                        self.flag('header_chars', 'illegal header %r' % (item,))
                    out.append((name, value))
            except (TypeError, ValueError):
                self.flag('header_type', 'headers not an iterable of pairs: %r' % (hdrs,))
            self.headers = out
        elif t == 'http.response.body':
            if self.state == 'init':
                self.flag('body_before_start', 'body event before response.start')
                return
            if self.state == 'done':
                self.flag('after_end', 'body event after the final body event')
                return
            body = ev.get('body', b'')
            if not isinstance(body, (bytes, bytearray, memoryview)):
                self.flag('body_type', 'body is %s' % type(body).__name__)
                body = b''
            self.body_chunks.append(bytes(body))
            more = ev.get('more_body', False)
            if type(more) is not bool:
                self.flag('more_body_type', 'more_body is %r' % (more,))
            if not more:
                self.state = 'done'
        else:
            self.flag('event_type', 'unexpected event type %r' % (t,))

    @property
    def body(self):
        return b''.join(self.body_chunks)

    def header_values(self, name):
        name = name.lower().encode() if isinstance(name, str) else name
        return [v for (n, v) in (self.headers or []) if n == name]


class WsMonitor(Monitor):
    """ASGI WebSocket application->server side."""

    def __init__(self, spec_version):
        Monitor.__init__(self, 'ws.monitor')
        self.ver = _ver_tuple(spec_version)
        self.state = 'connecting'    # connecting -> open -> closed
        self.accepts = 0
        self.closes = 0
        self.close_code = None
        self.close_reason = None
        self.denied = False
        self.sent_payloads = []      # ('text', s) / ('bytes', b)
        self.accept_event = None

    def on_send(self, ev):
        self.remember(ev)
        if not isinstance(ev, dict) or not isinstance(ev.get('type'), str):
            self.flag('event_shape', 'not an event dict: %r' % (ev,))
            return
        t = ev['type']
        if self.state == 'closed':
            self.flag('after_close', '%s sent after websocket.close' % t)
            return
        if t == 'websocket.accept':
            self.accepts += 1
            if self.state != 'connecting':
                self.flag('accept_once', 'websocket.accept in state %s' % self.state)
                return
            self.state = 'open'
            self.accept_event = ev
            sp = ev.get('subprotocol')
            if sp is not None and not isinstance(sp, str):
                self.flag('accept_subprotocol', 'subprotocol %r' % (sp,))
            if 'headers' in ev and ev['headers']:
                if self.ver < (2, 1):
                    self.flag('accept_headers_version', 'accept headers on spec %s' % (self.ver,))
                try:
                    for name, value in ev['headers']:
                        if not isinstance(name, bytes) or not isinstance(value, bytes):
                            self.flag('accept_header_type', 'accept header not bytes')
                        elif name != name.lower():
                            self.flag('accept_header_case', 'accept header name %r' % name)
                        elif name == b'sec-websocket-protocol':
                            self.flag('accept_header_forbidden', 'sec-websocket-protocol in headers')
                except (TypeError, ValueError):
                    self.flag('accept_header_type', 'accept headers malformed')
        elif t == 'websocket.send':
            if self.state != 'open':
                self.flag('send_state', 'websocket.send in state %s' % self.state)
                return
            b = ev.get('bytes')
            s = ev.get('text')
            if (b is None) == (s is None):
                self.flag('send_payload', 'need exactly one of bytes/text: %r' % (ev,))
            elif b is not None:
                if not isinstance(b, bytes):
                    self.flag('send_payload', 'bytes payload is %s' % type(b).__name__)
                self.sent_payloads.append(('bytes', b))
            else:
                if not isinstance(s, str):
                    self.flag('send_payload', 'text payload is %s' % type(s).__name__)
                self.sent_payloads.append(('text', s))
        elif t == 'websocket.close':
            self.closes += 1
            if self.state == 'connecting':
                self.denied = True
            self.state = 'closed'
            code = ev.get('code', 1000)
            if type(code) is not int:
                self.flag('close_code_type', 'close code %r' % (code,))
            self.close_code = code
            if 'reason' in ev:
                if self.ver < (2, 3):
                    self.flag('close_reason_version', 'reason on spec %s' % (self.ver,))
                if ev['reason'] is not None and not isinstance(ev['reason'], str):
                    self.flag('close_reason_type', 'reason %r' % (ev['reason'],))
                self.close_reason = ev['reason']
        else:
            self.flag('event_type', 'unexpected event type %r' % (t,))


class LifespanMonitor(Monitor):
    def __init__(self):
        Monitor.__init__(self, 'lifespan.monitor')

    def on_send(self, ev):
        self.remember(ev)
        t = ev.get('type') if isinstance(ev, dict) else None
        if t not in ('lifespan.startup.complete', 'lifespan.startup.failed',
                     'lifespan.shutdown.complete', 'lifespan.shutdown.failed'):
            self.flag('event_type', 'unexpected event %r' % (ev,))
        elif t.endswith('failed') and not isinstance(ev.get('message', ''), str):
            self.flag('message_type', 'message not str')


# ---------------------------------------------------------------------------
# connection
# ---------------------------------------------------------------------------
class Conn(object):
    """One ASGI connection as seen by the application."""

    DISCONNECT = {'http': 'http.disconnect', 'websocket': 'websocket.disconnect'}

    def __init__(self, sim, kind, scope, script, monitor,
                 recv_suspends=False, send_suspends=False, lost_mode='oserror',
                 name='c'):
        self.sim = sim
        self.loop = sim.loop
        self.kind = kind
        self.name = name
        self.scope = scope
        self.script = collections.deque(script)
        self.queue = collections.deque()
        self.monitor = monitor
        self.recv_suspends = recv_suspends
        self.send_suspends = send_suspends
        self.lost_mode = lost_mode       # 'drop' | 'oserror' | 'wsexc'
        self.waiter = None               # outstanding receive() future
        self.waiters_cancelled = 0
        self.recv_calls = 0
        self.pulled = []                 # events handed to the application side
        self.delivered = 0               # script events that reached the server
        self.suspended = collections.deque()   # send futures awaiting ack
        self.send_attempts = 0
        self.sends_after_lost = 0        # attempts made after a send already failed
        self.send_failed = False         # some send() raised into the app
        self.lost = False                # connection lost from the server's view
        self.disconnect_pulled = False
        self.pull_seq = []               # app-step index of each pull
        self.in_receive = 0              # receive() calls currently in progress
        self.sends_after_disc_pulled = 0
        self.delivered_msgs = 0          # non-disconnect events that reached the server
        self.msgs_before_disc = None
        self.disc_code = None
        self.failed_sends = 0
        self.arrived = []                # every event that reached the server, in order
        self.fail_send_at = ()           # send indices at which the connection drops
        self.cancel_send_at = ()         # send indices at which the awaiting task is cancelled
        self.fail_recv_at = ()           # receive() call indices that raise (connection reset)
        self.reject_close_codes = ()     # close codes the server refuses (Autobahn/Daphne: "invalid close code")
        self.refuse_send_at = ()         # send indices at which the server refuses that one event (the
                                         # connection stays up; nothing was delivered)
        self.refused_sends = 0
        self.rejected_closes = 0
        self.send_cancelled = False
        self.hold = False                # harness may hold back deliveries
        self.recv_after_disconnect = 0
        self.max_outstanding = 0
        self.dropped = []                # events eaten in 'drop' mode
        self.sticky_disconnect = None

    # -- application side ----------------------------------------------------
    async def receive(self):
        """Like `await asyncio.Queue.get()` in a real server: the future is a
        wake-up only; the event is taken from the queue when the caller
        actually resumes, so a cancelled receive() never loses an event."""
        self.recv_calls += 1
        if (self.recv_calls - 1) in self.fail_recv_at:
            self.sim.chooser.note_fired('recv_fail')
            raise ConnectionResetError('connection reset while receiving')
        if self.waiter is not None and not self.waiter.done():
            self.sim.note('concurrent_receive')
        if self.sticky_disconnect is not None and not self.queue:
            self.recv_after_disconnect += 1
            if self.recv_after_disconnect > 500:
                # an application spinning on receive() after the disconnect
                # never yields to the loop: abort the run (BaseException)
                from .simloop import SimBudgetExceeded
                raise SimBudgetExceeded('receive() called %d times after the disconnect'
                                        % self.recv_after_disconnect)
            return dict(self.sticky_disconnect)
        granted = not self.recv_suspends
        self.in_receive += 1
        try:
            while not (self.queue and granted):
                fut = self.loop.create_future()
                self.waiter = fut
                try:
                    await fut
                    granted = True
                finally:
                    if self.waiter is fut:
                        self.waiter = None
                    if fut.cancelled():
                        self.waiters_cancelled += 1
            return self._pull()
        finally:
            self.in_receive -= 1

    def _pull(self):
        ev = self.queue.popleft()
        self.pulled.append(ev)
        self.pull_seq.append(self.loop.app_steps)
        if ev['type'] == self.DISCONNECT.get(self.kind):
            self.disconnect_pulled = True
            self.sticky_disconnect = ev
        return dict(ev)

    async def send(self, event):
        idx = self.send_attempts
        self.send_attempts += 1
        if self.disconnect_pulled:
            self.sends_after_disc_pulled += 1
        if self.send_failed:
            self.sends_after_lost += 1
        if (self.reject_close_codes and isinstance(event, dict) and event.get('type') == 'websocket.close'
                and event.get('code') in self.reject_close_codes and not self.lost):
            self.rejected_closes += 1
            raise Exception('Invalid close code %r (server-side validation)' % (event.get('code'),))
        if (idx in self.refuse_send_at and not self.lost and isinstance(event, dict)
                and not str(event.get('type', '')).endswith('.close')):
            self.refused_sends += 1
            self.sim.chooser.note_fired('send_refused')
            raise ServerRefused('the server could not process this event')
        if idx in self.cancel_send_at:
            # the server cancels the application task while it awaits send()
            # (shutdown, or a server that cancels on disconnect)
            import asyncio
            self.send_cancelled = True
            self.lost = True
            raise asyncio.CancelledError()
        if not self.lost and idx in self.fail_send_at:
            self.lose(abrupt=True)
            self.sim.chooser.note_fired('send_fail')
        if self.lost:
            if self.lost_mode == 'drop':
                # Daphne-style: the server swallows the event. It still *receives* it, so the
                # application's event sequence stays under the protocol monitor.
                self.dropped.append(event)
                self.monitor.on_send(event)
                return
            self.send_failed = True
            self.failed_sends += 1
            if self.lost_mode == 'wsexc':
                raise Exception('sent 1000 (OK); then received 1000 (OK): code = 1000 (OK), no reason')
            raise LostConnection('connection lost')
        self.monitor.on_send(event)
        if self.send_suspends:
            fut = self.loop.create_future()
            self.suspended.append(fut)
            await fut

    # -- environment side ------------------------------------------------------
    def lose(self, abrupt=False):
        """Connection is gone from the server's view."""
        if self.lost:
            return
        self.lost = True
        if abrupt:
            # the server will report the loss as a disconnect event next
            dis = self.DISCONNECT.get(self.kind)
            if dis and not any(e['type'] == dis for e in self.queue):
                ev = {'type': dis}
                if self.kind == 'websocket':
                    ev['code'] = 1006
                # nothing the client scripted after this point will arrive
                self.script.clear()
                self.msgs_before_disc = self.delivered_msgs
                self.disc_code = ev.get('code')
                self.arrived.append(ev)
                self.queue.append(ev)
                self._try_resolve()

    def can_deliver(self):
        return bool(self.script) and not self.hold

    def deliver(self):
        ev = self.script.popleft()
        self.delivered += 1
        if ev['type'] == self.DISCONNECT.get(self.kind):
            self.lost = True
            if self.msgs_before_disc is None:
                self.msgs_before_disc = self.delivered_msgs
                self.disc_code = ev.get('code', 1000 if self.kind == 'websocket' else None)
        elif ev['type'] in ('websocket.receive', 'http.request'):
            self.delivered_msgs += 1
        self.arrived.append(ev)
        self.queue.append(ev)
        if not self.recv_suspends:
            self._try_resolve()

    def can_resolve(self):
        return (self.waiter is not None and not self.waiter.done()
                and bool(self.queue))

    def _try_resolve(self):
        if self.can_resolve():
            self.resolve()

    def resolve(self):
        fut = self.waiter
        self.waiter = None
        fut.set_result(None)

    def can_ack(self):
        while self.suspended and self.suspended[0].done():
            self.suspended.popleft()
        return bool(self.suspended)

    def ack(self):
        fut = self.suspended.popleft()
        if not fut.done():
            fut.set_result(None)

    def outstanding_receive(self):
        return self.in_receive > 0

    def actions(self, wd=2, wr=2, wk=2):
        acts = []
        if self.can_deliver():
            acts.append(('d', wd, self.deliver))
        if self.recv_suspends and self.can_resolve():
            acts.append(('r', wr, self.resolve))
        if self.can_ack():
            acts.append(('k', wk, self.ack))
        return acts


def http_scope(method='GET', path='/', query=b'', headers=(), spec_version='2.3',
               http_version='1.1', scheme='http', server=('sim', 80),
               client=('10.0.0.1', 40000), root_path=''):
    raw = path.encode('utf-8') if isinstance(path, str) else path
    return {
        'type': 'http',
        'asgi': {'version': '3.0', 'spec_version': spec_version},
        'http_version': http_version,
        'method': method,
        'scheme': scheme,
        'path': path if isinstance(path, str) else path.decode('utf-8', 'replace'),
        'raw_path': raw,
        'query_string': query,
        'root_path': root_path,
        'headers': [(k.lower() if isinstance(k, bytes) else k.lower().encode('latin-1'),
                     v if isinstance(v, bytes) else v.encode('latin-1'))
                    for k, v in headers],
        'client': client,
        'server': server,
    }


def ws_scope(path='/', headers=(), spec_version='2.3', subprotocols=(), query=b''):
    return {
        'type': 'websocket',
        'asgi': {'version': '3.0', 'spec_version': spec_version},
        'http_version': '1.1',
        'scheme': 'ws',
        'path': path,
        'raw_path': path.encode('utf-8'),
        'query_string': query,
        'root_path': '',
        'headers': [(k.lower() if isinstance(k, bytes) else k.lower().encode('latin-1'),
                     v if isinstance(v, bytes) else v.encode('latin-1'))
                    for k, v in headers],
        'client': ('10.0.0.1', 40000),
        'server': ('sim', 80),
        'subprotocols': list(subprotocols),
    }


def body_events(chunks, omit_keys=None):
    """http.request events for the given body chunks (last has more_body False).

    omit_keys: optional list parallel to the events with sets of keys to omit
    where the spec allows it ('body' when empty, 'more_body' when False)."""
    evs = []
    if not chunks:
        chunks = [b'']
    for i, c in enumerate(chunks):
        ev = {'type': 'http.request', 'body': c, 'more_body': i < len(chunks) - 1}
        evs.append(ev)
    if omit_keys:
        for ev, om in zip(evs, omit_keys):
            if 'body' in om and ev['body'] == b'':
                del ev['body']
            if 'more_body' in om and ev['more_body'] is False:
                del ev['more_body']
    return evs
