"""Runner (DESIGN 3.11): seeds -> worker pool -> verdict triage -> evidence."""
import argparse
import concurrent.futures as cf
import faulthandler
import hashlib
import importlib
import json
import multiprocessing
import os
import subprocess
import sys
import time

ROOT = os.path.dirname(os.path.dirname(os.path.abspath(__file__)))

from . import findings, mirror                      # noqa: E402
from .chooser import derive_seed                    # noqa: E402
from .core import run_case as _run_case_plain, run_case_isolated   # noqa: E402
from .shrink import shrink                          # noqa: E402

PROPS = ['C01', 'C03', 'C04', 'C05', 'C07', 'C12', 'C13', 'C14', 'C16', 'C17',
         'C18', 'C19']

_MOD = {}
_DUMP_DIGESTS = bool(os.environ.get('DETSIM_DUMP_DIGESTS'))


def load_prop(prop):
    if prop not in _MOD:
        _MOD[prop] = importlib.import_module('props.' + prop.lower())
    return _MOD[prop]


def run_case(mod, **kw):
    """Properties whose realistic breakage can hide in module-level state of the
    code under test set ISOLATE = True: each run then executes in a forked child."""
    if getattr(mod, 'ISOLATE', False):
        return run_case_isolated(mod, **kw)
    return _run_case_plain(mod, **kw)


def _h(*parts):
    return hashlib.blake2b(repr(parts).encode(), digest_size=8).digest()


def _new_agg():
    return {'runs': 0, 'workloads': 0, 'steps': 0, 'vtime': 0.0, 'fired': {}, 'offered': {},
            'probes': {}, 'distinct': set(), 'plans': set(), 'nontrivial_runs': 0,
            'violations': {}, 'harness_errors': [], 'samples': [], 'audits': 0, 'digests': [],
            'audit_mismatch': [], 'ops_done': 0, 'sweep_runs': 0, 'vcount': 0}


def _absorb(agg, res, meta):
    agg['runs'] += 1
    if _DUMP_DIGESTS:
        agg['digests'].append((meta.get('index'), meta.get('sweep_site', 0), res['digest'],
                               hashlib.sha1(repr(res['choices']).encode()).hexdigest()[:10]))
    agg['steps'] += res['steps']
    agg['vtime'] += res['vtime']
    agg['ops_done'] += res['ops_done']
    for k in ('fired', 'offered', 'probes'):
        d = agg[k]
        for name, n in res[k].items():
            d[name] = d.get(name, 0) + n
    pk = res['plan_key']
    agg['plans'].add(_h(pk))
    if res['nontrivial']:
        agg['nontrivial_runs'] += 1
        agg['distinct'].add(_h(pk, res['sched_key']))
    if res['harness_error']:
        if len(agg['harness_errors']) < 5:
            agg['harness_errors'].append({'meta': meta, 'error': res['harness_error'],
                                          'choices': res['choices']})
    for v in res['verdicts']:
        agg['vcount'] += 1
        key = v['oracle'] + '|' + json.dumps(v['sig'], sort_keys=True)
        lst = agg['violations'].setdefault(key, [])
        if len(lst) < 3 or len(res['choices']) < max(len(x['choices']) for x in lst):
            lst.append({'meta': meta, 'choices': res['choices'], 'verdict': v,
                        'digest': res['digest']})
            lst.sort(key=lambda x: len(x['choices']))
            del lst[3:]
    if len(agg['samples']) < 2 and res['plan'] and res['nontrivial']:
        agg['samples'].append({'meta': meta, 'plan': res['plan'], 'schedule': res['sched_key'][:200],
                               'verdicts': res['verdicts']})


def _merge(a, b):
    for k in ('runs', 'workloads', 'steps', 'vtime', 'nontrivial_runs', 'audits', 'ops_done',
              'sweep_runs', 'vcount'):
        a[k] += b[k]
    for k in ('fired', 'offered', 'probes'):
        for name, n in b[k].items():
            a[k][name] = a[k].get(name, 0) + n
    a['distinct'] |= b['distinct']
    a['plans'] |= b['plans']
    for key, lst in b['violations'].items():
        cur = a['violations'].setdefault(key, [])
        cur.extend(lst)
        cur.sort(key=lambda x: len(x['choices']))
        del cur[3:]
    a['digests'].extend(b['digests'])
    a['harness_errors'].extend(b['harness_errors'])
    del a['harness_errors'][5:]
    a['audit_mismatch'].extend(b['audit_mismatch'])
    if len(a['samples']) < 4:
        a['samples'].extend(b['samples'][:4 - len(a['samples'])])


def _batch(args):
    prop, verif_seed, start, count, tier, sweep_cap, batch_timeout = args
    faulthandler.dump_traceback_later(batch_timeout, exit=True)
    try:
        mod = load_prop(prop)
        agg = _new_agg()
        sweep = getattr(mod, 'SWEEP', False)
        for i in range(start, start + count):
            seed = derive_seed(verif_seed, prop, i)
            res = run_case(mod, seed=seed, tier=tier)
            agg['workloads'] += 1
            _absorb(agg, res, {'index': i, 'seed': seed})
            if i % 37 == 0:
                agg['audits'] += 1
                again = run_case(mod, seed=seed, tier=tier)
                if again['digest'] != res['digest'] or again['choices'] != res['choices']:
                    agg['audit_mismatch'].append({'index': i, 'seed': seed})
            if sweep and res['sweep_pos'] is not None and not res['harness_error']:
                pos = res['sweep_pos']
                k = min(res['sweep_sites'], sweep_cap)
                base = res['choices'][:pos]
                for site in range(1, k + 1):
                    if res['choices'][pos] == site:
                        continue
                    s2 = derive_seed(seed, 'sweep', site)
                    r2 = run_case(mod, seed=s2, prefix=base + [site], tier=tier)
                    agg['sweep_runs'] += 1
                    _absorb(agg, r2, {'index': i, 'seed': s2, 'sweep_site': site,
                                      'prefix_of': seed})
        return agg
    finally:
        faulthandler.cancel_dump_traceback_later()


def _replay_in_fresh_interpreter(prop, path, src):
    cmd = [sys.executable, os.path.join(ROOT, 'check'), prop, '--replay', path,
           '--src', src, '--print-digest']
    env = dict(os.environ)
    env['PYTHONHASHSEED'] = '1'
    try:
        out = subprocess.run(cmd, capture_output=True, text=True, timeout=300, env=env)
    except subprocess.TimeoutExpired:
        return None, 'timeout'
    return out.returncode, out.stdout + out.stderr


def write_evidence(prop, mod, tier, verif_seed, agg, wall, n_viol, extra=None):
    os.makedirs(os.path.join(ROOT, 'evidence'), exist_ok=True)
    runs = agg['runs']
    cov = {
        'evaluations': runs,
        'distinct_nontrivial': len(agg['distinct']),
        'rule': getattr(mod, 'RULE', ''),
        'samples': agg['samples'][:3] or [{'note': 'no sample recorded'}],
        'workloads': agg['workloads'],
        'fault_sweep_runs': agg['sweep_runs'],
        'distinct_workload_plans': len(agg['plans']),
        'nontrivial_runs': agg['nontrivial_runs'],
        'runs_per_hour': int(runs / wall * 3600) if wall > 0 else 0,
        'simulator_steps': agg['steps'],
        'simulated_seconds': round(agg['vtime'], 3),
        'operations_completed': agg['ops_done'],
        'faults_fired': dict(sorted(agg['fired'].items())),
        'fault_opportunities': dict(sorted(agg['offered'].items())),
        'probes': dict(sorted(agg['probes'].items())),
        'determinism_audits': agg['audits'],
        'determinism_mismatches': len(agg['audit_mismatch']),
        'components': getattr(mod, 'COMPONENTS', {}),
        'mirror_sha256': mirror.digest(),
        'oracle_verdicts_total': agg['vcount'],
        'exhaustive': False,
        'new_distinct_per_nontrivial_run_in_last_decile': agg.get('growth_last_decile'),
        'clock': 'virtual time; the code under test registers no timers or deadlines, so simulated time stays 0 '
                 'and clock-skew faults do not apply',
    }
    zero = [p for p in getattr(mod, 'EXPECTED_PROBES', ()) if not agg['probes'].get(p)]
    if zero:
        cov['probes_stuck_at_zero'] = zero
    if extra:
        cov.update(extra)
    ev = {
        'property_id': prop,
        'tier': tier,
        'seed': int(verif_seed),
        'level': getattr(mod, 'LEVEL', 'exploration'),
        'coverage': cov,
        'assumptions': list(getattr(mod, 'ASSUMPTIONS', ())) + [
            'falcon is exercised as the pure-Python mirror of /repo (cythonized modules are not simulated)',
            'the fake servers implement PEP 3333 / the ASGI specs as read by the harness author',
            'sampling, not proof: a clean batch is evidence only',
        ],
        'wall_s': round(wall, 2),
        'violations': n_viol,
    }
    path = os.path.join(ROOT, 'evidence', prop + '.json')
    tmp = path + '.tmp'
    with open(tmp, 'w') as f:
        json.dump(ev, f, indent=1, sort_keys=True, default=repr)
    os.replace(tmp, path)
    return path


def do_replay(prop, mod, path, print_digest=False):
    with open(path) as f:
        rep = json.load(f)
    res = run_case(mod, replay=rep['choices'], tier=rep.get('tier', 'quick'), keep_labels=True)
    known = findings.load()
    rc = 0
    if res['harness_error']:
        print('HARNESS-ERROR property=%s replay=%s\n%s' % (prop, path, res['harness_error']))
        return 2
    want = rep.get('oracle')
    hit = False
    for v in res['verdicts']:
        e = findings.match(known, prop, v)
        if e is not None:
            print('KNOWN-FINDING: property=%s %s [%s]' % (prop, e.get('description', ''), v['oracle']))
            continue
        if want is None or v['oracle'] == want:
            hit = True
        print('oracle=%s sig=%s\n  %s' % (v['oracle'], json.dumps(v['sig'], sort_keys=True), v['msg']))
    if print_digest:
        print('DIGEST %s' % res['digest'])
    if hit:
        print('VIOLATION property=%s replay=%s' % (prop, path))
        rc = 1
    else:
        print('replay did not reproduce a violation (oracle wanted: %s)' % want)
    return rc


def main(argv=None):
    ap = argparse.ArgumentParser()
    ap.add_argument('prop')
    ap.add_argument('--tier', default=os.environ.get('VERIF_TIER') or 'quick',
                    choices=['quick', 'thorough'])
    ap.add_argument('--replay')
    ap.add_argument('--src', default='/repo')
    ap.add_argument('--jobs', type=int, default=0)
    ap.add_argument('--runs', type=int, default=0)
    ap.add_argument('--start', type=int, default=0)
    ap.add_argument('--print-digest', action='store_true')
    ap.add_argument('--no-evidence', action='store_true')
    ap.add_argument('--no-shrink', action='store_true')
    ap.add_argument('--seed', default=None)
    ap.add_argument('--replay-dir', default=None)
    args = ap.parse_args(argv)

    prop = args.prop.upper()
    if prop not in PROPS:
        print('HARNESS-ERROR unknown or unclaimed property %s' % prop)
        return 2
    verif_seed = args.seed if args.seed is not None else os.environ.get('VERIF_SEED', '0')
    try:
        verif_seed = int(verif_seed)
    except ValueError:
        verif_seed = int.from_bytes(hashlib.sha256(str(verif_seed).encode()).digest()[:6], 'big')

    t0 = time.monotonic()
    try:
        mirror.activate(args.src)
    except Exception as ex:
        print('HARNESS-ERROR mirror: %r' % (ex,))
        return 2
    sys.path.insert(1, ROOT)
    mod = load_prop(prop)

    if args.replay:
        return do_replay(prop, mod, args.replay, args.print_digest)

    tier = args.tier
    n = args.runs or mod.RUNS[tier]
    jobs = args.jobs or min(16, os.cpu_count() or 1)
    sweep_cap = getattr(mod, 'SWEEP_CAP', {}).get(tier, 24) if hasattr(mod, 'SWEEP_CAP') else 24
    per_batch = max(1, min(getattr(mod, 'BATCH', 400), (n + jobs * 4 - 1) // (jobs * 4)))
    batch_timeout = getattr(mod, 'BATCH_TIMEOUT', 600)
    print('property=%s tier=%s VERIF_SEED=%s workloads=%d jobs=%d mirror=%s' % (
        prop, tier, verif_seed, n, jobs, mirror.digest()[:12]))
    sys.stdout.flush()

    tasks = []
    i = args.start
    end = args.start + n
    while i < end:
        c = min(per_batch, end - i)
        tasks.append((prop, verif_seed, i, c, tier, sweep_cap, batch_timeout))
        i += c

    agg = _new_agg()
    harness_fail = None
    parts = []          # (start index, batch aggregate), merged in index order afterwards
    if jobs == 1:
        for t in tasks:
            parts.append((t[2], _batch(t)))
    else:
        ctx = multiprocessing.get_context('fork')
        ex = cf.ProcessPoolExecutor(max_workers=jobs, mp_context=ctx)
        try:
            futs = [ex.submit(_batch, t) for t in tasks]
            fut_start = {f: t[2] for f, t in zip(futs, tasks)}
            wall_cap = getattr(mod, 'WALL_CAP', {}).get(tier, 3600) if hasattr(mod, 'WALL_CAP') else \
                (7200 if tier == 'thorough' else 3600)
            try:
                for fut in cf.as_completed(futs, timeout=wall_cap):
                    parts.append((fut_start[fut], fut.result()))
            except cf.TimeoutError:
                harness_fail = 'wall cap %ds exceeded' % wall_cap
            except cf.process.BrokenProcessPool as bex:
                harness_fail = 'worker died (hang or crash): %r' % (bex,)
        finally:
            procs = list((getattr(ex, '_processes', None) or {}).values())
            ex.shutdown(wait=False, cancel_futures=True)
            if harness_fail:
                for p in procs:
                    try:
                        p.kill()
                    except Exception:
                        pass

    # merge in seed-index order; measure how fast new (plan, schedule) pairs still appear
    parts.sort(key=lambda x: x[0])
    growth = None
    mark = int(len(parts) * 0.9)
    d_at_mark = r_at_mark = 0
    for i, (_st, part) in enumerate(parts):
        if i == mark:
            d_at_mark, r_at_mark = len(agg['distinct']), agg['nontrivial_runs']
        _merge(agg, part)
    if parts and agg['nontrivial_runs'] > r_at_mark:
        growth = round((len(agg['distinct']) - d_at_mark) / float(agg['nontrivial_runs'] - r_at_mark), 4)
    agg['growth_last_decile'] = growth

    # -- triage ---------------------------------------------------------------
    known = findings.load()
    known_hits = {}
    unknown = []
    for key, lst in sorted(agg['violations'].items()):
        v = lst[0]['verdict']
        e = findings.match(known, prop, v)
        if e is not None:
            known_hits.setdefault(e.get('id', e.get('description')), (e, 0))
            ent, cnt = known_hits[e.get('id', e.get('description'))]
            known_hits[e.get('id', e.get('description'))] = (ent, cnt + len(lst))
        else:
            unknown.append((key, lst))

    # minimise one signature per distinct oracle id first, then the rest
    seen_or = set()
    first, rest = [], []
    for key, lst in unknown:
        oid = key.split('|', 1)[0]
        (rest if oid in seen_or else first).append((key, lst))
        seen_or.add(oid)
    unknown = first + rest

    for _id, (e, cnt) in sorted(known_hits.items()):
        print('KNOWN-FINDING: property=%s %s (id=%s)' % (prop, e.get('description', ''), e.get('id')))

    rc = 0
    n_viol = 0
    replay_dir = args.replay_dir or os.path.join(ROOT, 'replays', prop)
    os.makedirs(replay_dir, exist_ok=True)
    for key, lst in unknown[:6]:
        item = lst[0]
        v = item['verdict']
        choices = item['choices']
        if not args.no_shrink:
            def runner_fn(c):
                # isolated: the parent process stays pristine while shrinking
                return run_case_isolated(mod, replay=c, tier=tier)
            choices, res, nruns = shrink(runner_fn, choices, v['oracle'], v['sig'],
                                         max_runs=1500, max_seconds=30.0)
        else:
            res = run_case_isolated(mod, replay=choices, tier=tier)
            nruns = 1
        full = run_case_isolated(mod, replay=choices, tier=tier, keep_labels=True)
        vv = [x for x in full['verdicts'] if x['oracle'] == v['oracle'] and x['sig'] == v['sig']]
        if not vv:
            print('HARNESS-ERROR nondeterminism: violation %s did not replay in-process' % v['oracle'])
            rc = max(rc, 2)
            continue
        name = '%s-%s.json' % (v['oracle'].replace('/', '_'), hashlib.sha1(repr(choices).encode()).hexdigest()[:10])
        path = os.path.join(replay_dir, name)
        with open(path, 'w') as f:
            json.dump({'property': prop, 'tier': tier, 'verif_seed': verif_seed,
                       'meta': item['meta'], 'mirror_sha256': mirror.digest(),
                       'oracle': v['oracle'], 'sig': vv[0]['sig'], 'message': vv[0]['msg'],
                       'choices': choices,
                       'decoded': list(zip(full['labels'] or [], full['choices'])),
                       'plan': full['plan'], 'schedule': full['sched_key'],
                       'digest': full['digest'], 'shrink_runs': nruns},
                      f, indent=1, default=repr)
        code, out = _replay_in_fresh_interpreter(prop, path, args.src)
        if code != 1 or ('DIGEST %s' % full['digest']) not in (out or ''):
            print('HARNESS-ERROR nondeterminism: replay of %s in a fresh interpreter gave rc=%s' % (path, code))
            print(out)
            rc = max(rc, 2)
            continue
        n_viol += 1
        print('oracle=%s sig=%s\n  %s' % (v['oracle'], json.dumps(vv[0]['sig'], sort_keys=True), vv[0]['msg']))
        print('VIOLATION property=%s replay=%s' % (prop, path))
        rc = max(rc, 1)
    if len(unknown) > 6:
        print('(%d more distinct violation signatures not minimised:)' % (len(unknown) - 6))
        for key, lst in unknown[6:40]:
            print('  also: %s  e.g. %s' % (key, lst[0]['verdict']['msg'][:160]))

    if agg['harness_errors']:
        he = agg['harness_errors'][0]
        print('HARNESS-ERROR in run %s:\n%s' % (he['meta'], he['error']))
        with open(os.path.join(replay_dir, 'harness-error.json'), 'w') as f:
            json.dump({'property': prop, 'tier': tier, 'choices': he['choices'], 'error': he['error']}, f)
        rc = max(rc, 2)
    if agg['audit_mismatch']:
        print('HARNESS-ERROR nondeterminism: %d audited seeds gave different digests: %s' % (
            len(agg['audit_mismatch']), agg['audit_mismatch'][:3]))
        rc = max(rc, 2)
    if harness_fail:
        print('HARNESS-ERROR %s' % harness_fail)
        rc = max(rc, 2)

    if _DUMP_DIGESTS:
        with open(os.environ['DETSIM_DUMP_DIGESTS'], 'w') as f:
            for row in sorted(agg['digests']):
                f.write('%s %s %s %s\n' % row)
    wall = time.monotonic() - t0
    if not args.no_evidence:
        extra = {'known_findings_seen': sorted(str(k) for k in known_hits)}
        write_evidence(prop, mod, tier, verif_seed, agg, wall, n_viol, extra)
    print('runs=%d (workloads=%d sweep=%d) distinct_nontrivial=%d steps=%d faults=%s wall=%.1fs rc=%d' % (
        agg['runs'], agg['workloads'], agg['sweep_runs'], len(agg['distinct']), agg['steps'],
        json.dumps(agg['fired'], sort_keys=True), wall, rc))
    zero = [p for p in getattr(mod, 'EXPECTED_PROBES', ()) if not agg['probes'].get(p)]
    if zero:
        print('WARNING probes stuck at zero: %s' % zero)
    return rc
